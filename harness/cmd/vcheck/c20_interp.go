package main

// C20 layer 3 — the interpreter: interp.Main with a scripted Readline and a controllable InterruptChan.
// Interrupts are delivered event-driven (when the virtual stdout sees a marker / when a prompt is about
// to be answered), never by sleeping. Metamorphic oracle: the transcript (prompts + outputs) of a run in
// which a spinning evaluation is interrupted must equal the transcript of the same session where that
// line only prints its marker — i.e. exactly the innermost evaluation was cancelled, the enclosing REPL
// level kept its context and input, earlier and later results are intact, the run ends normally.

import (
	"context"
	"fmt"
	"io"
	"strings"
	"sync"
	"time"

	"verif/ev"
	"verif/fqx"
	"verif/gen"
	"verif/vos"
)

type c20Line struct {
	Prefix    string   // jq text evaluated before the spinning part of a Spin line (same evaluation)
	RefPrefix string   // if set: what the reference (uninterrupted) session evaluates instead of Prefix
	Extra     []string // further markers inside Prefix: one interrupt each when `"marker"\n` has been written
	Text      string   // what the user types
	Spin      bool     // the line prints its marker and then spins forever (must be interrupted)
	Marker    string
	Interrupt int // interrupts to send when the marker is seen (Spin lines), or at the prompt (idle interrupt)
	AtPrompt  bool
}

type c20Transcript struct {
	Prompts []string
	Stdout  string
	Exit    int
	Err     string
	Panic   string
	Timeout bool
}

// c20RunSession runs `fq -n -i` (REPL on null) with the scripted lines.
var c20SessionTimeout = 90 * time.Second

func c20RunSession(lines []c20Line, interrupts bool, stopAtEnd bool) c20Transcript {
	o := vos.New("-n", "-i")
	o.Interrupt = make(chan struct{})
	var tr c20Transcript
	var mu sync.Mutex
	fired := map[string]bool{}
	send := func(n int) {
		for i := 0; i < n; i++ {
			go func() {
				select {
				case o.Interrupt <- struct{}{}:
				case <-time.After(20 * time.Second):
				}
			}()
		}
	}
	for _, l := range lines {
		text := l.Text
		if l.Spin {
			if interrupts {
				text = fmt.Sprintf("%s%q, (range(1e12) | select(false))", l.Prefix, l.Marker)
			} else {
				pre := l.Prefix
				if l.RefPrefix != "" {
					pre = l.RefPrefix
				}
				text = fmt.Sprintf("%s%q", pre, l.Marker)
			}
		}
		o.Lines = append(o.Lines, text)
	}
	o.StdoutV.OnWrite = func(p []byte) {
		if !interrupts {
			return
		}
		s := o.StdoutV.String()
		for _, l := range lines {
			// wait for the newline after the marker: the value and its newline are two writes, and output written
			// after cancellation is (rightly) suppressed
			for _, em := range l.Extra {
				if strings.Contains(s, "\""+em+"\"\n") {
					mu.Lock()
					done := fired[em]
					fired[em] = true
					mu.Unlock()
					if !done {
						send(1)
					}
				}
			}
			if l.Spin && l.Interrupt > 0 && strings.Contains(s, "\""+l.Marker+"\"\n") {
				mu.Lock()
				done := fired[l.Marker]
				fired[l.Marker] = true
				mu.Unlock()
				if !done {
					send(l.Interrupt)
				}
			}
		}
	}
	o.OnReadline = func(prompt string, n int) {
		mu.Lock()
		tr.Prompts = append(tr.Prompts, prompt)
		mu.Unlock()
		// idle interrupt: delivered on the channel while the REPL waits at the prompt; wait until the
		// trigger goroutine has taken it (the send completes) so that the order of events is known
		if interrupts && n < len(lines) && lines[n].AtPrompt {
			for i := 0; i < lines[n].Interrupt; i++ {
				select {
				case o.Interrupt <- struct{}{}:
				case <-time.After(20 * time.Second):
				}
			}
			time.Sleep(20 * time.Millisecond) // let the cancel propagate (only in the probe scenarios)
		}
	}
	done := make(chan struct{})
	var res vos.Result
	var pi *fqx.PanicInfo
	go func() {
		pi = guardStack(func() { res = o.RunMain(context.Background(), fqx.Registry()) })
		close(done)
	}()
	select {
	case <-done:
	case <-time.After(c20SessionTimeout):
		tr.Timeout = true
		return tr
	}
	if pi != nil {
		tr.Panic = fmt.Sprint(pi.Value) + "\n" + pi.Stack
	}
	tr.Stdout = string(res.Stdout)
	tr.Exit = res.Exit
	if res.Err != nil {
		tr.Err = res.Err.Error()
	}
	return tr
}

// c20Abandoned: an evaluation that abandons a nested evaluation's iterator (first(eval(...))) and then keeps
// running must still be cancellable by ONE interrupt: the abandoned nested evaluation is no longer in progress.
func c20Abandoned(run *ev.Run) {
	lines := []c20Line{
		{Text: "1+1"},
		{Spin: true, Prefix: `first(eval("\"inner\", 2")), `, Marker: "spin_abandoned", Interrupt: 1},
		{Text: `"after"`},
		{Text: "^D"},
	}
	saved := c20SessionTimeout
	c20SessionTimeout = 20 * time.Second
	defer func() { c20SessionTimeout = saved }()
	ref := c20RunSession(lines, false, false)
	got := c20RunSession(lines, true, false)
	run.Eval(1)
	run.Count("interp:abandoned-nested-eval-scenario", 1)
	switch {
	case got.Panic != "":
		run.Violation("interp:panic", "abandoned-nested-eval session panicked\n"+trunc(got.Panic, 1500), nil)
	case got.Timeout:
		run.Violation("interp:stale-abandoned-nested-eval-swallows-interrupt", "`first(eval(\"\\\"inner\\\", 2\")), \"spin\", (range(1e12)|select(false))`: one interrupt delivered after the marker did not end the evaluation (the abandoned nested evaluation stays on top of the interrupt stack and receives the cancel)", nil)
	case !ref.Timeout && (got.Stdout != ref.Stdout || got.Exit != ref.Exit):
		run.Violation("interp:abandoned:output", "abandoned-nested-eval session: transcript differs from the uninterrupted reference:\n"+firstDiff(ref.Stdout, got.Stdout), nil)
	}
}

// c20FailedNested: a nested evaluation that never ran (compile error, failing include, parse error) or that
// failed at run time, with the error caught by the enclosing evaluation, must leave nothing behind on the
// interrupt stack: ONE interrupt still ends the enclosing, still running evaluation (seed C20-C: a context pushed
// before compiling and not popped on the error path swallows every later interrupt).
func c20FailedNested(run *ev.Run) {
	cases := []struct{ name, prefix string }{
		{"undefined-function", `(try eval("nosuchfunction_c20") catch "caught"), `},
		{"undefined-variable", `(try eval("$nosuchvar_c20") catch "caught"), `},
		{"failing-include", `(try eval("include \"nosuchmodule_c20\"; 1") catch "caught"), `},
		{"parse-error", `(try eval("1 +") catch "caught"), `},
		{"runtime-error", `(try eval("error(\"x\")") catch "caught"), `},
		{"runtime-error-after-output", `[try eval("1, error(\"x\")") catch "caught"], `},
		{"two-failed-compiles", `(try eval("nosuchfunction_c20") catch "c1"), (try eval("nosuchfunction_c20b") catch "c2"), `},
	}
	saved := c20SessionTimeout
	c20SessionTimeout = 20 * time.Second
	defer func() { c20SessionTimeout = saved }()
	for _, c := range cases {
		lines := []c20Line{
			{Text: "1+1"},
			{Spin: true, Prefix: c.prefix, Marker: "spin_failed_nested", Interrupt: 1},
			{Text: `"after"`},
			{Text: "^D"},
		}
		ref := c20RunSession(lines, false, false)
		got := c20RunSession(lines, true, false)
		run.Eval(1)
		run.Count("interp:failed-nested-eval-scenarios", 1)
		switch {
		case got.Panic != "":
			run.Violation("interp:panic", "failed-nested-eval session ("+c.name+") panicked\n"+trunc(got.Panic, 1500), nil)
		case got.Timeout:
			run.Violation("interp:failed-nested-eval-swallows-interrupt:"+c.name, "`"+c.prefix+"\"spin\", (range(1e12)|select(false))`: one interrupt delivered after the marker did not end the evaluation within 20 s", nil)
		case ref.Timeout:
			run.Inconclusive("failed-nested-reference-timeout")
		case got.Stdout != ref.Stdout || got.Exit != ref.Exit:
			run.Violation("interp:failed-nested:output:"+c.name, "failed-nested-eval session: transcript differs from the uninterrupted reference:\n"+firstDiff(ref.Stdout, got.Stdout), nil)
		default:
			run.Distinct("interp:failed-nested:" + c.name)
		}
	}
}

// c20CaughtCancel: a nested evaluation is interrupted, the enclosing evaluation CATCHES the cancellation error and
// keeps running its own code; the next interrupt must cancel the enclosing evaluation (seed C20-F: the interrupted
// nested evaluation stayed on the interrupt stack as a dead top entry and swallowed every later interrupt).
func c20CaughtCancel(run *ev.Run) {
	saved := c20SessionTimeout
	c20SessionTimeout = 25 * time.Second
	defer func() { c20SessionTimeout = saved }()
	for _, c := range []struct{ name, prefix, ref string }{
		{"try-eval", `(try eval("\"m1_cc\", (range(1e12) | select(false))") catch "caught"), `, `"m1_cc", "caught", `},
		{"try-eval-twice", `(try eval("\"m1_cc\", (range(1e12) | select(false))") catch "caught"), (try eval("\"m1b_cc\", (range(1e12) | select(false))") catch "caught2"), `, `"m1_cc", "caught", "m1b_cc", "caught2", `},
		{"optional-eval", `(eval("\"m1_cc\", (range(1e12) | select(false))")?), `, `"m1_cc", `},
	} {
		extra := []string{"m1_cc"}
		if c.name == "try-eval-twice" {
			extra = append(extra, "m1b_cc")
		}
		lines := []c20Line{
			{Text: "1+1"},
			{Spin: true, Prefix: c.prefix, RefPrefix: c.ref, Extra: extra, Marker: "m2_cc", Interrupt: 1},
			{Text: `"after"`},
			{Text: "^D"},
		}
		ref := c20RunSession(lines, false, false)
		got := c20RunSession(lines, true, false)
		run.Eval(1)
		run.Count("interp:caught-cancel-scenarios", 1)
		switch {
		case got.Panic != "":
			run.Violation("interp:panic", "caught-cancel session ("+c.name+") panicked\n"+trunc(got.Panic, 1500), nil)
		case got.Timeout:
			run.Violation("interp:caught-cancel-swallows-interrupt:"+c.name, "`"+c.prefix+"\"m2\", (range(1e12)|select(false))`: the nested evaluation was interrupted and its cancellation caught; the next interrupt (sent after the enclosing evaluation printed its marker) did not end the enclosing evaluation within 25 s", nil)
		case ref.Timeout:
			run.Inconclusive("caught-cancel-reference-timeout")
		case got.Stdout != ref.Stdout || got.Exit != ref.Exit:
			run.Violation("interp:caught-cancel:output:"+c.name, "caught-cancel session: transcript differs from the reference (nested evaluation replaced by its marker and the catch value):\n"+firstDiff(ref.Stdout, got.Stdout), nil)
		default:
			run.Distinct("interp:caught-cancel:" + c.name)
		}
	}
}

// c20BlockedIO: an interrupt that arrives while the evaluation is blocked inside a read of its input (a stalled
// pipe, a network file system) must still end the evaluation: fq returns while the read is STILL blocked (the
// read is released only after the verdict). Seed C20-E: a context-aware reader that, once the io call has been
// handed to its goroutine, waits for completion only.
type c20BlockingReader struct {
	io.ReadSeeker
	after   int // block on the read call number `after`
	n       int
	blocked chan struct{}
	release chan struct{}
	once    sync.Once
}

func (b *c20BlockingReader) Read(p []byte) (int, error) {
	b.n++
	if b.n == b.after {
		b.once.Do(func() { close(b.blocked) })
		<-b.release
	}
	return b.ReadSeeker.Read(p)
}

func c20BlockedIO(run *ev.Run) {
	for _, sc := range []struct {
		name  string
		args  []string
		after int
	}{
		{"cli-decode-first-read", []string{"-d", "bytes", "tobytes | tohex | length", "input"}, 1},
		{"cli-probe-first-read", []string{".", "input"}, 1},
		{"cli-raw-second-read", []string{"-d", "bytes", "tobytes", "input"}, 2},
	} {
		o := vos.New(sc.args...)
		o.Files["input"] = gen.New(20).Bytes(3 << 20)
		o.Interrupt = make(chan struct{})
		br := &c20BlockingReader{after: sc.after, blocked: make(chan struct{}), release: make(chan struct{})}
		o.OpenHook = func(name string, r io.ReadSeeker) io.ReadSeeker { br.ReadSeeker = r; return br }
		done := make(chan struct{})
		var res vos.Result
		var pi *fqx.PanicInfo
		go func() {
			pi = guardStack(func() { res = o.RunMain(context.Background(), fqx.Registry()) })
			close(done)
		}()
		run.Eval(1)
		reached := false
		select {
		case <-br.blocked:
			reached = true
		case <-done:
		case <-time.After(30 * time.Second):
		}
		if !reached {
			// the scenario needs the read to be reached (it is, on the unchanged tree); otherwise nothing is judged
			close(br.release)
			<-done
			run.Count("interp:blocked-io:read-not-reached:"+sc.name, 1)
			continue
		}
		run.Count("interp:blocked-io-scenarios", 1)
		select {
		case o.Interrupt <- struct{}{}:
		case <-time.After(20 * time.Second):
		}
		endedWhileBlocked := false
		select {
		case <-done:
			endedWhileBlocked = true
		case <-time.After(20 * time.Second):
		}
		close(br.release)
		<-done
		switch {
		case pi != nil:
			run.Violation("interp:panic", "blocked-io session ("+sc.name+") panicked\n"+trunc(fmt.Sprint(pi.Value)+"\n"+pi.Stack, 1500), nil)
		case !endedWhileBlocked:
			run.Violation("interp:interrupt-does-not-end-evaluation-blocked-in-io:"+sc.name, fmt.Sprintf("fq %v: the interrupt was delivered while read #%d of the input was blocked; fq was still running 20 s later and only returned (exit %d) after the read was released", sc.args, sc.after, res.Exit), nil)
		default:
			run.Distinct("interp:blocked-io:" + sc.name)
		}
	}
}

// c20OutputSuppressed: output written after cancellation is suppressed, also for a nested evaluation (depth >= 2)
// whose single native call performs very many writes (hexdump of a 4 MiB binary, ~18 MB of text). The
// interrupt is sent when the marker line has been written; afterwards at most a small fraction of the dump may
// still appear (bounded by bytes, not by time: each write re-checks the cancelled context).
func c20OutputSuppressed(run *ev.Run) {
	for depth := 0; depth <= 2; depth++ {
		const prog = `"dumpmarker", ("0123456789abcdef" * 262144 | tobytes | hexdump)`
		var o *vos.OS
		if depth == 0 {
			// plain CLI: the expression runs in an evaluation nested inside _main's own evaluation
			o = vos.New("-n", prog)
		} else {
			o = vos.New("-n", "-i")
			for d := 1; d < depth; d++ {
				o.Lines = append(o.Lines, "1 | repl")
			}
			o.Lines = append(o.Lines, prog, `"after"`)
			for d := 0; d < depth; d++ {
				o.Lines = append(o.Lines, "^D")
			}
		}
		o.Interrupt = make(chan struct{})
		o.StdoutV.Limit = 1 << 20
		var once sync.Once
		var atInterrupt int64 = -1
		var mu sync.Mutex
		o.StdoutV.OnWrite = func(p []byte) {
			// deliver the interrupt while the dump is in progress: once 256 KiB of it have been written
			if o.StdoutV.TotalWritten() > 1<<18 {
				once.Do(func() {
					go func() {
						select {
						case o.Interrupt <- struct{}{}:
							mu.Lock()
							atInterrupt = o.StdoutV.TotalWritten()
							mu.Unlock()
						case <-time.After(20 * time.Second):
						}
					}()
				})
			}
		}
		done := make(chan struct{})
		var pi *fqx.PanicInfo
		go func() {
			pi = guardStack(func() { o.RunMain(context.Background(), fqx.Registry()) })
			close(done)
		}()
		select {
		case <-done:
		case <-time.After(180 * time.Second):
			run.Inconclusive("output-suppression-session-timeout")
			continue
		}
		run.Eval(1)
		run.Count("interp:output-suppression-scenarios", 1)
		if pi != nil {
			run.Violation("interp:panic", "output-suppression session panicked: "+fmt.Sprint(pi.Value), nil)
			continue
		}
		mu.Lock()
		at := atInterrupt
		mu.Unlock()
		total := o.StdoutV.TotalWritten()
		if at < 0 {
			run.Inconclusive("interrupt-not-delivered")
			continue
		}
		after := total - at
		run.Count("interp:bytes-written-after-interrupt", after)
		const fullDump = 17 << 20 // a complete hexdump of 4 MiB is > 17 MB of text
		if after > fullDump/4 {
			run.Violation(fmt.Sprintf("interp:output-after-cancellation:depth%d", depth), fmt.Sprintf("REPL depth %d: %d bytes of hexdump output were written after the interrupt had been taken (the whole dump is ~%d MB): output after cancellation is not suppressed", depth, after, fullDump>>20), nil)
		}
		run.Distinct(fmt.Sprintf("interp-output-suppression:%d", depth))
	}
}

func c20Interp(run *ev.Run) {
	c20Abandoned(run)
	c20FailedNested(run)
	c20BlockedIO(run)
	c20CaughtCancel(run)
	c20OutputSuppressed(run)
	n := run.Pick(24, 400)
	for id := 0; id < n; id++ {
		rng := gen.New(run.Seed).Fork(0xC2030000 + uint64(id))
		// build a session: nesting depth 1..3, one or two spinning lines at random levels, plain lines around
		var lines []c20Line
		depth := 1
		maxDepth := 1 + rng.Intn(3)
		nSpin := 0
		steps := 4 + rng.Intn(6)
		for s := 0; s < steps; s++ {
			switch k := rng.Intn(6); {
			case k == 0 && depth < maxDepth:
				lines = append(lines, c20Line{Text: fmt.Sprintf("%d | repl", 100+depth)})
				depth++
			case k == 1 && depth > 1:
				lines = append(lines, c20Line{Text: "^D"})
				depth--
			case k <= 3 && nSpin < 2:
				nSpin++
				ni := 1
				if id%3 == 2 {
					ni = 1 + rng.Intn(2) // hostile third of the sessions: double interrupts
				}
				lines = append(lines, c20Line{Spin: true, Marker: fmt.Sprintf("spin%d_%d", id, s), Interrupt: ni})
			default:
				lines = append(lines, c20Line{Text: gen.Pick(rng, []string{".", "1+1", `"plain"`, "[., 1] | tojson", "[range(3)]"})})
			}
		}
		if nSpin == 0 {
			lines = append(lines, c20Line{Spin: true, Marker: fmt.Sprintf("spin%d_x", id), Interrupt: 1})
		}
		lines = append(lines, c20Line{Text: `"after"`})
		for ; depth > 0; depth-- {
			lines = append(lines, c20Line{Text: "^D"})
		}
		hostile := false
		if id%3 == 2 {
			// idle interrupt at a prompt
			k := rng.Intn(len(lines))
			if !lines[k].Spin {
				lines[k].AtPrompt = true
				lines[k].Interrupt = 1
			}
		}
		for _, l := range lines {
			if l.Interrupt > 1 || l.AtPrompt {
				hostile = true
			}
		}
		ref := c20RunSession(lines, false, false)
		got := c20RunSession(lines, true, false)
		run.Eval(1)
		run.Count("interp:sessions", 1)
		var desc []string
		for _, l := range lines {
			if l.Spin {
				desc = append(desc, fmt.Sprintf("<spin %s, %d interrupt(s)>", l.Marker, l.Interrupt))
			} else {
				desc = append(desc, l.Text)
			}
		}
		session := strings.Join(desc, " ; ")
		switch {
		case got.Timeout:
			// an evaluation that was not cancelled (or a deadlock) shows up here: decided by the event log,
			// not by the clock: the marker WAS seen and the interrupt WAS sent, yet the session never ended
			run.Violation("interp:interrupt-did-not-end-evaluation-or-deadlock", "session did not finish after the interrupt was delivered: "+session, map[string]any{"session": session})
			continue
		case ref.Timeout:
			run.Inconclusive("reference-session-timeout")
			continue
		case got.Panic != "":
			run.Violation("interp:panic", "session panicked: "+session+"\n"+trunc(got.Panic, 2000), map[string]any{"session": session})
			continue
		}
		if hostile {
			// a second interrupt (or one delivered while idle at a prompt) hits whatever evaluation is innermost
			// at that moment - possibly the REPL level itself, which then ends: only safety/liveness is required
			run.Count("interp:hostile-sessions (no crash, no deadlock, normal exit status)", 1)
			if got.Exit != 0 && got.Exit != 1 {
				run.Violation("interp:hostile:exit-status", fmt.Sprintf("session [%s]: exit %d (err %s)", session, got.Exit, got.Err), map[string]any{"session": session})
			}
			run.Distinct("interp-hostile:" + session)
			continue
		}
		if got.Exit != ref.Exit {
			run.Violation("interp:exit-status", fmt.Sprintf("session [%s]: exit %d with interrupts, %d without (err %s)", session, got.Exit, ref.Exit, got.Err), map[string]any{"session": session})
			continue
		}
		if strings.Join(got.Prompts, "|") != strings.Join(ref.Prompts, "|") {
			run.Violation("interp:prompt-sequence", fmt.Sprintf("session [%s]: prompts with interrupts %q, without %q (an interrupt must cancel only the innermost evaluation: the REPL level and its input stay)", session, got.Prompts, ref.Prompts), map[string]any{"session": session})
			continue
		}
		if got.Stdout != ref.Stdout {
			run.Violation("interp:output", fmt.Sprintf("session [%s]: output differs:\n%s", session, firstDiff(ref.Stdout, got.Stdout)), map[string]any{"session": session})
			continue
		}
		run.Count("interp:interrupted-evaluations", int64(nSpin))
		run.Count("interp:prompts-compared", int64(len(got.Prompts)))
		run.Distinct("interp:" + session)
	}
	run.Sample(map[string]any{"layer": 3, "example": "101 | repl ; <spin, 2 interrupts> ; . ; ^D ; \"after\" ; ^D"})
}
