package main

import "verif/ev"

// layer 3 (interpreter) – filled in below
func c20Interp(run *ev.Run) {}
