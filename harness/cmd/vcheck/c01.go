package main

// C01 — bit-exact reads through any composition of bit and file readers.
// History + executable model: a reader tree is built together with the bit string it
// denotes; every call at the boundary is checked online against the model.

import (
	"bytes"
	"context"
	"errors"
	"fmt"
	"io"
	"os"
	"runtime"
	"strings"
	"sync"

	"github.com/wader/fq/pkg/bitio"
	"github.com/wader/fq/pkg/verifx"

	"verif/ev"
	"verif/gen"
)

func init() { register("C01", c01Main) }

// ---- reference bit string (independent of bitio.Read64/Write64) ----

type bstr struct {
	b []byte // packed, MSB first
	n int64
}

func (s bstr) bit(i int64) byte { return (s.b[i>>3] >> (7 - uint(i&7))) & 1 }

func bstrFromBytes(b []byte, n int64) bstr {
	if n < 0 {
		n = int64(len(b)) * 8
	}
	return bstr{b: b, n: n}
}

type bbuilder struct {
	b []byte
	n int64
}

func (w *bbuilder) add(bit byte) {
	if w.n&7 == 0 {
		w.b = append(w.b, 0)
	}
	if bit != 0 {
		w.b[w.n>>3] |= 1 << (7 - uint(w.n&7))
	}
	w.n++
}
func (w *bbuilder) addStr(s bstr, off, n int64) {
	if w.n&7 == 0 && off&7 == 0 { // byte fast path, still independent of bitio
		for n >= 8 {
			w.b = append(w.b, s.b[off>>3])
			w.n += 8
			off += 8
			n -= 8
		}
	}
	for i := int64(0); i < n; i++ {
		w.add(s.bit(off + i))
	}
}
func (w *bbuilder) str() bstr { return bstr{b: w.b, n: w.n} }

func (s bstr) slice(off, n int64) bstr {
	var w bbuilder
	w.addStr(s, off, n)
	return w.str()
}
func bconcat(ss ...bstr) bstr {
	var w bbuilder
	for _, s := range ss {
		w.addStr(s, 0, s.n)
	}
	return w.str()
}

// bytesPadded is the byte view: trailing partial byte right-padded with zero bits.
func (s bstr) bytesPadded() []byte {
	nb := (s.n + 7) / 8
	out := make([]byte, nb)
	copy(out, s.b[:nb])
	if s.n&7 != 0 {
		out[nb-1] &= 0xff << (8 - uint(s.n&7))
	}
	return out
}
func (s bstr) String() string {
	var sb strings.Builder
	for i := int64(0); i < s.n && i < 200; i++ {
		sb.WriteByte('0' + s.bit(i))
	}
	if s.n > 200 {
		sb.WriteString("…")
	}
	return sb.String()
}

// eqBits: the first m bits of p equal model[off:off+m]
func eqBits(p []byte, m int64, model bstr, off int64) (int64, bool) {
	i := int64(0)
	if off&7 == 0 {
		for ; i+8 <= m; i += 8 {
			if p[i>>3] != model.b[(off+i)>>3] {
				break
			}
		}
	}
	for ; i < m; i++ {
		if (p[i>>3]>>(7-uint(i&7)))&1 != model.bit(off+i) {
			return i, false
		}
	}
	return 0, true
}

// ---- reader nodes ----

type bitNode struct {
	r     bitio.ReaderAtSeeker
	m     bstr
	pos   int64
	shape string
}

type byteNode struct {
	r     io.ReadSeeker
	m     []byte
	pos   int64
	shape string
	// endExact is false when the byte view's end is ambiguous (bit length not a multiple of 8)
	endExact bool
}

type c01 struct {
	run     *ev.Run
	rng     *gen.Rand
	scratch string
	files   []*os.File
	cancels []context.CancelFunc
	log     []string // operation history of the current case
	shape   string
	kinds   map[string]bool
	failed  bool
	// leaf reads of short-reading leaves during the current boundary operation
	leafCalls int64
	// fault injection: a short-reading leaf may fail (sticky) from its failFrom-th read on. faultFired is set
	// when the current operation touched the failing leaf; such an operation is judged by the weak oracle only
	// (delivered bits are right, EOF only at the logical end) and ends the history.
	faultFired bool
	weak       bool
	ended      bool
}

var errInjected = errors.New("injected leaf read error")

func (c *c01) cleanupCase() {
	for _, cf := range c.cancels {
		cf()
	}
	c.cancels = nil
	for _, f := range c.files {
		f.Close()
		os.Remove(f.Name())
	}
	c.files = nil
}

func (c *c01) logf(format string, a ...any) {
	c.log = append(c.log, fmt.Sprintf(format, a...))
}

func (c *c01) fail(sig string, format string, a ...any) {
	if c.failed {
		return
	}
	if c.faultFired && !c.weak {
		// the strong oracle does not apply to an operation whose leaf failed underneath
		c.ended = true
		return
	}
	c.failed = true
	desc := fmt.Sprintf(format, a...)
	hist := c.log
	if len(hist) > 60 {
		hist = hist[len(hist)-60:]
	}
	c.run.Violation(sig, desc+"\n  shape: "+c.shape+"\n  history (last ops):\n    "+strings.Join(hist, "\n    "),
		map[string]any{"shape": c.shape, "history": c.log, "seed": c.run.Seed})
}

var aheadMinReads = []int{0, 1, 3, 16, 64, 4096, 512 * 1024}

func (c *c01) content(maxBytes int) []byte {
	r := c.rng
	var n int
	switch r.Intn(6) {
	case 0:
		n = r.Intn(3)
	case 1:
		n = r.Intn(10)
	default:
		n = r.Intn(maxBytes + 1)
	}
	b := r.Bytes(n)
	switch r.Intn(8) {
	case 0:
		for i := range b {
			b[i] = 0xff
		}
	case 1:
		for i := range b {
			b[i] = byte(i)
		}
	}
	return b
}

// shortRS is a seekable leaf whose Read returns at most max bytes per call and, when eofWithData is set,
// reports io.EOF together with the last bytes (both allowed by the io.Reader contract).
//
// It also counts its Read calls per boundary operation: an operation that needs more than leafStepBudget
// leaf reads makes no progress (a correct wrapper needs at most one leaf read per byte asked for, the
// largest content is 600 KiB) — a verdict on logical steps, not on wall-clock time.
type shortRS struct {
	r           *bytes.Reader
	max         int
	eofWithData bool
	c           *c01
	reads       int64
	failFrom    int64 // 0 = never
}

const leafStepBudget = 20_000_000

func (s *shortRS) Read(p []byte) (int, error) {
	s.reads++
	if s.failFrom > 0 && s.reads >= s.failFrom {
		s.c.faultFired = true
		return 0, errInjected
	}
	s.c.leafCalls++
	if s.c.leafCalls > leafStepBudget {
		// an error rather than a panic: under a context wrapper this runs on ctxreadseeker's goroutine
		return 0, errors.New("no-progress: more than 20M leaf reads in one operation")
	}
	if len(p) > s.max {
		p = p[:s.max]
	}
	n, err := s.r.Read(p)
	if err == nil && n > 0 && s.eofWithData && s.r.Len() == 0 {
		err = io.EOF
	}
	return n, err
}
func (s *shortRS) Seek(off int64, whence int) (int64, error) { return s.r.Seek(off, whence) }

// genByte builds a byte-level io.ReadSeeker node.
func (c *c01) genByte(depth int, maxBytes int) *byteNode {
	r := c.rng
	k := r.Intn(10)
	if depth <= 0 && k >= 3 {
		k = r.Intn(3)
	}
	switch k {
	case 0, 1:
		b := c.content(maxBytes)
		if r.Intn(3) == 0 {
			// a leaf that reads short, like a pipe or a network file: every wrapper above it must
			// still deliver all the bytes (io.ReadFull, not a single Read)
			mx := gen.Pick(r, []int{1, 2, 3, 7, 64, 1000})
			ewd := r.Bool()
			c.kinds["short-reader"] = true
			leaf := &shortRS{r: bytes.NewReader(b), max: mx, eofWithData: ewd, c: c}
			shape := fmt.Sprintf("short%d(%d)", mx, len(b))
			if r.Intn(3) == 0 {
				leaf.failFrom = 1 + int64(r.Intn(40))
				c.kinds["faulty-reader"] = true
				shape = fmt.Sprintf("short%dfail%d(%d)", mx, leaf.failFrom, len(b))
			}
			return &byteNode{r: leaf, m: b, shape: shape, endExact: true}
		}
		c.kinds["bytes.Reader"] = true
		return &byteNode{r: bytes.NewReader(b), m: b, shape: fmt.Sprintf("bytes(%d)", len(b)), endExact: true}
	case 2:
		b := c.content(maxBytes)
		f, err := os.CreateTemp(c.scratch, "c01-*")
		if err != nil {
			panic(err)
		}
		if _, err := f.Write(b); err != nil {
			panic(err)
		}
		if _, err := f.Seek(0, io.SeekStart); err != nil {
			panic(err)
		}
		c.files = append(c.files, f)
		c.kinds["os.File"] = true
		return &byteNode{r: f, m: b, shape: fmt.Sprintf("file(%d)", len(b)), endExact: true}
	case 3, 4:
		in := c.genBit(depth-1, maxBytes)
		c.kinds["IOReadSeeker"] = true
		return &byteNode{r: bitio.NewIOReadSeeker(in.r), m: in.m.bytesPadded(), shape: "ioreadseeker(" + in.shape + ")", endExact: in.m.n%8 == 0}
	case 5, 6:
		in := c.genByte(depth-1, maxBytes)
		mr := gen.Pick(r, aheadMinReads)
		c.kinds["ahead"] = true
		return &byteNode{r: verifx.NewAheadReader(in.r, mr), m: in.m, shape: fmt.Sprintf("ahead%d(%s)", mr, in.shape), endExact: in.endExact}
	case 7:
		in := c.genByte(depth-1, maxBytes)
		c.kinds["progress"] = true
		prec := int64(gen.Pick(r, []int{1, 3, 1024}))
		total := int64(len(in.m))
		if total == 0 {
			// progressreadseeker divides by totalSize/precision: fq's _open passes the file size
			// as is, including 0; keep the same call
			total = 0
		}
		return &byteNode{r: verifx.NewProgressReader(in.r, prec, total, func(a, t int64) {}), m: in.m, shape: fmt.Sprintf("progress%d(%s)", prec, in.shape), endExact: in.endExact}
	case 8:
		in := c.genByte(depth-1, maxBytes)
		ctx, cancel := context.WithCancel(context.Background())
		c.cancels = append(c.cancels, cancel)
		c.kinds["ctx"] = true
		return &byteNode{r: verifx.NewCtxReader(ctx, in.r), m: in.m, shape: "ctx(" + in.shape + ")", endExact: in.endExact}
	default:
		// the exact stack _open builds: ahead(progress(ctx(file)))
		in := c.genByte(0, maxBytes)
		ctx, cancel := context.WithCancel(context.Background())
		c.cancels = append(c.cancels, cancel)
		var rs io.ReadSeeker = verifx.NewCtxReader(ctx, in.r)
		rs = verifx.NewProgressReader(rs, 1024, int64(len(in.m)), func(a, t int64) {})
		rs = verifx.NewAheadReader(rs, 512*1024)
		c.kinds["openstack"] = true
		return &byteNode{r: rs, m: in.m, shape: "openstack(" + in.shape + ")", endExact: true}
	}
}

// genBit builds a bit-level bitio.ReaderAtSeeker node.
func (c *c01) genBit(depth int, maxBytes int) *bitNode {
	r := c.rng
	k := r.Intn(12)
	if depth <= 0 && k >= 3 {
		k = r.Intn(3)
	}
	switch k {
	case 0, 1:
		b := c.content(maxBytes)
		n := int64(len(b)) * 8
		if n > 0 && r.Bool() {
			n -= int64(r.Intn(8))
		}
		c.kinds["NewBitReader"] = true
		return &bitNode{r: bitio.NewBitReader(b, n), m: bstrFromBytes(b, n), shape: fmt.Sprintf("bitreader(%db)", n)}
	case 2:
		n := int64(r.Intn(maxBytes*8 + 1))
		if r.Intn(4) == 0 {
			n = int64(r.Intn(20))
		}
		c.kinds["zero"] = true
		return &bitNode{r: zeroRAS{verifx.NewZeroAtSeeker(n)}, m: bstr{b: make([]byte, (n+7)/8), n: n}, shape: fmt.Sprintf("zero(%db)", n)}
	case 3, 4:
		in := c.genBit(depth-1, maxBytes)
		var off, n int64
		if in.m.n > 0 {
			off = r.Int63n(in.m.n + 1)
			n = r.Int63n(in.m.n - off + 1)
			switch r.Intn(5) {
			case 0:
				off, n = 0, in.m.n
			case 1:
				n = in.m.n - off
			}
		}
		c.kinds["section"] = true
		return &bitNode{r: bitio.NewSectionReader(in.r, off, n), m: in.m.slice(off, n), shape: fmt.Sprintf("section[%d+%d](%s)", off, n, in.shape)}
	case 5, 6, 7:
		cnt := r.Intn(5)
		var rs []bitio.ReadAtSeeker
		var ms []bstr
		var shapes []string
		for i := 0; i < cnt; i++ {
			sub := maxBytes / 2
			if r.Intn(3) == 0 {
				sub = 2
			}
			in := c.genBit(depth-1, sub)
			rs = append(rs, in.r)
			ms = append(ms, in.m)
			shapes = append(shapes, in.shape)
		}
		mr, err := bitio.NewMultiReader(rs...)
		if err != nil {
			c.fail("multi-new-error", "NewMultiReader(%v) failed: %v", shapes, err)
			return &bitNode{r: bitio.NewBitReader(nil, 0), m: bstr{}, shape: "failed"}
		}
		c.kinds["multi"] = true
		return &bitNode{r: mr, m: bconcat(ms...), shape: "multi(" + strings.Join(shapes, ",") + ")"}
	case 8:
		// bitio.Buffer written in random splits, then read through a section of its bits
		b := c.content(maxBytes)
		n := int64(len(b)) * 8
		if n > 0 && r.Bool() {
			n -= int64(r.Intn(8))
		}
		src := bstrFromBytes(b, n)
		var buf bitio.Buffer
		off := int64(0)
		for off < n {
			k := int64(r.Intn(70)) + 1
			if k > n-off {
				k = n - off
			}
			chunk := src.slice(off, k)
			p := append([]byte(nil), chunk.b...)
			if wn, err := buf.WriteBits(p, k); err != nil || wn != k {
				c.fail("buffer-write", "Buffer.WriteBits(%d bits)=(%d,%v)", k, wn, err)
			}
			off += k
		}
		bb, bn := buf.Bits()
		if bn != n {
			c.fail("buffer-bits-len", "Buffer.Bits() length %d want %d", bn, n)
			bn = n
		}
		if _, ok := eqBits(bb, min(bn, int64(len(bb))*8), src, 0); !ok || int64(len(bb)) != (n+7)/8 {
			c.fail("buffer-bits-content", "Buffer.Bits() content mismatch for %d bits written in chunks", n)
		}
		c.kinds["buffer"] = true
		return &bitNode{r: bitio.NewBitReader(bb, bn), m: src, shape: fmt.Sprintf("buffer(%db)", n)}
	default:
		in := c.genByte(depth-1, maxBytes)
		c.kinds["IOBitReadSeeker"] = true
		if !in.endExact {
			// the end of a padded byte view is ambiguous for seek-from-end (floor vs ceil of the bit
			// length); pin the length with a section so that only reads and start-relative seeks reach it
			n := int64(len(in.m)) * 8
			return &bitNode{r: bitio.NewSectionReader(bitio.NewIOBitReadSeeker(in.r), 0, n), m: bstrFromBytes(in.m, -1), shape: fmt.Sprintf("section[0+%d](iobit(%s))", n, in.shape)}
		}
		return &bitNode{r: bitio.NewIOBitReadSeeker(in.r), m: bstrFromBytes(in.m, -1), shape: "iobit(" + in.shape + ")"}
	}
}

// stepGuard counts the reader calls one bitio.ReadAtFull/ReadFull makes: a correct reader delivers at least
// one bit per call (or an error), so n bits need at most n calls; a reader that keeps answering (0, nil)
// makes the stitching loop spin. Decided on logical steps (calls), not on wall-clock time.
type stepGuard struct {
	r     bitio.ReaderAtSeeker
	calls int64
	limit int64
}

func guard(r bitio.ReaderAtSeeker, nBits int64) *stepGuard {
	return &stepGuard{r: r, limit: 2*max(nBits, 0) + 1000}
}
func (g *stepGuard) step() {
	g.calls++
	if g.calls > g.limit {
		panic(fmt.Sprintf("no-progress: more than %d reader calls for one full read", g.limit))
	}
}
func (g *stepGuard) ReadBitsAt(p []byte, n int64, off int64) (int64, error) {
	g.step()
	return g.r.ReadBitsAt(p, n, off)
}
func (g *stepGuard) ReadBits(p []byte, n int64) (int64, error) {
	g.step()
	return g.r.ReadBits(p, n)
}

// ZeroReadAtSeeker has no ReadBits; fq always wraps it in a MultiReader/section. Give it a cursor so it
// can sit anywhere in a tree (the cursor logic is the harness's, positional reads are the real code).
type zeroRAS struct{ z *verifx.ZeroReadAtSeeker }

func (z zeroRAS) ReadBitsAt(p []byte, n int64, off int64) (int64, error) {
	return z.z.ReadBitsAt(p, n, off)
}
func (z zeroRAS) SeekBits(off int64, whence int) (int64, error) { return z.z.SeekBits(off, whence) }
func (z zeroRAS) ReadBits(p []byte, n int64) (int64, error) {
	pos, err := z.z.SeekBits(0, io.SeekCurrent)
	if err != nil {
		return 0, err
	}
	m, err := z.z.ReadBitsAt(p, n, pos)
	if m > 0 {
		if _, serr := z.z.SeekBits(m, io.SeekCurrent); serr != nil {
			return m, serr
		}
	}
	return m, err
}

func (c *c01) pickLen(remain int64) int64 {
	r := c.rng
	switch r.Intn(12) {
	case 0:
		return 0
	case 1:
		return int64(r.Intn(9))
	case 2:
		return int64(gen.Pick(r, []int{8, 16, 32, 63, 64, 65, 71, 128}))
	case 3:
		return remain
	case 4:
		return remain + int64(r.Intn(20))
	case 5:
		if remain > 0 {
			return remain - int64(r.Intn(int(min(remain, 9))))
		}
		return 1
	case 6:
		return int64(r.Intn(4096 * 8))
	default:
		return int64(r.Intn(200))
	}
}

func (c *c01) pickOff(n int64) int64 {
	r := c.rng
	switch r.Intn(8) {
	case 0:
		return 0
	case 1:
		return n
	case 2:
		return n + int64(r.Intn(10)) + 1
	case 3:
		if n > 0 {
			return n - 1 - int64(r.Intn(int(min(n, 20))))
		}
		return 0
	default:
		return r.Int63n(n + 1)
	}
}

// checkRead validates one positional result (m,err) for a request of n bits at off.
func (c *c01) checkRead(op string, nd *bitNode, p []byte, n, off, m int64, err error) {
	L := nd.m.n
	c.run.Count("op:"+op, 1)
	if c.faultFired {
		c.weakRead(op, L, n, off, m, err, func() (int64, bool) { return eqBits(p, m, nd.m, off) })
		return
	}
	if m < 0 || m > n {
		c.fail(op+":count-out-of-range", "%s(n=%d, off=%d) on len %d returned count %d (err %v)", op, n, off, L, m, err)
		return
	}
	if off > L {
		if m != 0 || (err == nil && n > 0) {
			c.fail(op+":beyond-end", "%s(n=%d, off=%d) beyond logical end %d returned (%d,%v)", op, n, off, L, m, err)
		}
		return
	}
	if off+m > L {
		c.fail(op+":bits-beyond-end", "%s(n=%d, off=%d) on len %d returned %d bits: %d beyond the logical end (err %v)", op, n, off, L, m, off+m-L, err)
		return
	}
	if i, ok := eqBits(p, m, nd.m, off); !ok {
		c.fail(op+":wrong-bits", "%s(n=%d, off=%d) on len %d returned %d bits, bit %d differs (err %v): model %s", op, n, off, L, m, i, err, nd.m.slice(off, min(m, 64)))
		return
	}
	if err != nil {
		if !errors.Is(err, io.EOF) {
			c.fail(op+":unexpected-error", "%s(n=%d, off=%d) on len %d returned error %v", op, n, off, L, err)
			return
		}
		if off+m != L {
			c.fail(op+":eof-not-at-end", "%s(n=%d, off=%d) on len %d returned EOF after %d bits, %d bits before the logical end", op, n, off, L, m, L-off-m)
			return
		}
	}
	if off&7 != 0 {
		c.run.Count("read:unaligned", 1)
	}
	if m > 64 {
		c.run.Count("read:>64bits", 1)
	}
	if err != nil {
		c.run.Count("read:eof", 1)
	}
	if m < n && err == nil {
		c.run.Count("read:short-nil", 1)
	}
}

// weakRead judges a read during which the leaf failed: whatever was delivered must still be the right bits
// inside the logical range, end-of-data may only be reported at the logical end (an I/O error must not be
// turned into EOF), and a read that delivers nothing must say why.
func (c *c01) weakRead(op string, L, n, off, m int64, err error, eq func() (int64, bool)) {
	c.weak = true
	defer func() { c.weak = false; c.ended = true }()
	c.run.Count("fault:reads-judged", 1)
	if m < 0 || m > n || (off <= L && off+m > L) || (off > L && m != 0) {
		c.fail(op+":fault:count-out-of-range", "%s(n=%d, off=%d) on len %d with a failing leaf returned count %d (err %v)", op, n, off, L, m, err)
		return
	}
	if m > 0 {
		if i, ok := eq(); !ok {
			c.fail(op+":fault:wrong-bits", "%s(n=%d, off=%d) on len %d with a failing leaf returned %d bits, bit %d differs (err %v)", op, n, off, L, m, i, err)
			return
		}
	}
	if err != nil && errors.Is(err, io.EOF) && off <= L && off+m != L {
		c.fail(op+":fault:error-turned-into-eof", "%s(n=%d, off=%d) on len %d: the leaf failed with an I/O error, the read reported EOF after %d bits, %d before the logical end", op, n, off, L, m, L-off-m)
		return
	}
	if err != nil && !errors.Is(err, io.EOF) {
		c.run.Count("fault:error-surfaced", 1)
	}
	if err == nil {
		c.run.Count("fault:served-from-cache-or-short", 1)
	}
}

func (c *c01) opBit(nodes *[]*bitNode) {
	r := c.rng
	c.leafCalls = 0
	nd := (*nodes)[r.Intn(len(*nodes))]
	L := nd.m.n
	switch r.Intn(10) {
	case 0, 1: // ReadBitsAt
		off := c.pickOff(L)
		n := c.pickLen(max(L-off, 0))
		p := r.Bytes(int((n+7)/8) + 1)
		c.logf("ReadBitsAt(n=%d, off=%d)", n, off)
		m, err := nd.r.ReadBitsAt(p, n, off)
		c.logf("  -> (%d,%v)", m, err)
		c.checkRead("ReadBitsAt", nd, p, n, off, m, err)
	case 2, 3: // ReadBits
		n := c.pickLen(max(L-nd.pos, 0))
		p := r.Bytes(int((n+7)/8) + 1)
		c.logf("ReadBits(n=%d) at pos %d", n, nd.pos)
		m, err := nd.r.ReadBits(p, n)
		c.logf("  -> (%d,%v)", m, err)
		c.checkRead("ReadBits", nd, p, n, nd.pos, m, err)
		if m > 0 {
			nd.pos += m
		}
	case 4, 5: // SeekBits
		whence := r.Intn(3)
		var base int64
		switch whence {
		case io.SeekCurrent:
			base = nd.pos
		case io.SeekEnd:
			base = L
		}
		target := c.pickOff(L)
		if r.Intn(12) == 0 {
			target = -1 - int64(r.Intn(5))
		}
		arg := target - base
		c.logf("SeekBits(%d, whence=%d) from pos %d (target %d)", arg, whence, nd.pos, target)
		got, err := nd.r.SeekBits(arg, whence)
		c.logf("  -> (%d,%v)", got, err)
		c.run.Count(fmt.Sprintf("op:SeekBits:whence%d", whence), 1)
		switch {
		case target < 0:
			// outside the domain; only used to perturb. resync the cursor.
			c.run.Count("seek:negative-target", 1)
			if p2, err2 := nd.r.SeekBits(nd.pos, io.SeekStart); err2 != nil || p2 != nd.pos {
				if nd.pos <= L {
					c.fail("SeekBits:resync", "SeekBits(%d, start) after a rejected seek returned (%d,%v)", nd.pos, p2, err2)
				}
			}
		case target <= L:
			if err != nil || got != target {
				c.fail(fmt.Sprintf("SeekBits:whence%d:valid-target", whence), "SeekBits(%d, whence=%d) with cursor %d on len %d (target %d) returned (%d,%v)", arg, whence, nd.pos, L, target, got, err)
				return
			}
			nd.pos = target
		default:
			if err == nil {
				if got != target {
					c.fail(fmt.Sprintf("SeekBits:whence%d:beyond-end-value", whence), "SeekBits(%d, whence=%d) with cursor %d on len %d (target %d) succeeded with %d", arg, whence, nd.pos, L, target, got)
					return
				}
				nd.pos = target
				c.run.Count("seek:beyond-end-accepted", 1)
			} else {
				c.run.Count("seek:beyond-end-rejected", 1)
			}
		}
	case 6: // ReadAtFull
		off := c.pickOff(L)
		n := c.pickLen(max(L-off, 0))
		p := r.Bytes(int((n+7)/8) + 1)
		c.logf("ReadAtFull(n=%d, off=%d)", n, off)
		m, err := bitio.ReadAtFull(guard(nd.r, n), p, n, off)
		c.logf("  -> (%d,%v)", m, err)
		c.run.Count("op:ReadAtFull", 1)
		if off+n <= L {
			if err != nil || m != n {
				c.fail("ReadAtFull:short", "ReadAtFull(n=%d, off=%d) on len %d returned (%d,%v)", n, off, L, m, err)
				return
			}
			if i, ok := eqBits(p, n, nd.m, off); !ok {
				c.fail("ReadAtFull:wrong-bits", "ReadAtFull(n=%d, off=%d) on len %d: bit %d differs", n, off, L, i)
			}
		} else if err == nil && n > 0 {
			c.fail("ReadAtFull:no-error-past-end", "ReadAtFull(n=%d, off=%d) on len %d returned no error", n, off, L)
		}
	case 7: // ReadFull
		if nd.pos > L {
			return
		}
		n := c.pickLen(L - nd.pos)
		if nd.pos+n > L {
			n = L - nd.pos // keep the cursor known
		}
		p := r.Bytes(int((n+7)/8) + 1)
		c.logf("ReadFull(n=%d) at pos %d", n, nd.pos)
		m, err := bitio.ReadFull(guard(nd.r, n), p, n)
		c.logf("  -> (%d,%v)", m, err)
		c.run.Count("op:ReadFull", 1)
		if err != nil || m != n {
			c.fail("ReadFull:short", "ReadFull(n=%d) at cursor %d on len %d returned (%d,%v)", n, nd.pos, L, m, err)
			return
		}
		if i, ok := eqBits(p, n, nd.m, nd.pos); !ok {
			c.fail("ReadFull:wrong-bits", "ReadFull(n=%d) at cursor %d on len %d: bit %d differs", n, nd.pos, L, i)
		}
		nd.pos += n
	case 8: // clone
		if len(*nodes) >= 4 {
			return
		}
		cl, ok := nd.r.(bitio.ReaderAtSeekerCloner)
		if !ok {
			return
		}
		nr, err := cl.CloneReaderAtSeeker()
		c.logf("CloneReaderAtSeeker -> err %v", err)
		c.run.Count("op:Clone", 1)
		if err != nil {
			c.fail("Clone:error", "CloneReaderAtSeeker failed: %v", err)
			return
		}
		*nodes = append(*nodes, &bitNode{r: nr, m: nd.m, pos: 0, shape: nd.shape})
	case 9: // byte view of the remainder via a clone: io.ReadAll(NewIOReader(clone))
		cl, ok := nd.r.(bitio.ReaderAtSeekerCloner)
		if !ok || L > 1<<23 {
			return
		}
		nr, err := cl.CloneReaderAtSeeker()
		if err != nil {
			return
		}
		var out bytes.Buffer
		var n int64
		if r.Bool() {
			n, err = verifx.CopyBits(&out, nr)
			c.logf("CopyBits(clone) -> (%d,%v)", n, err)
		} else {
			var b []byte
			b, err = io.ReadAll(bitio.NewIOReader(nr))
			out.Write(b)
			c.logf("ReadAll(IOReader(clone)) -> (%d bytes,%v)", len(b), err)
		}
		c.run.Count("op:byteview", 1)
		want := nd.m.bytesPadded()
		if err != nil || !bytes.Equal(out.Bytes(), want) {
			c.fail("byteview:mismatch", "byte view of %d bits: err %v, got %d bytes %x want %d bytes %x", L, err, out.Len(), head(out.Bytes()), len(want), head(want))
		}
	}
}

func head(b []byte) []byte {
	if len(b) > 48 {
		return b[:48]
	}
	return b
}

func (c *c01) opByte(nd *byteNode) {
	r := c.rng
	c.leafCalls = 0
	L := int64(len(nd.m))
	op := r.Intn(7)
	if op == 6 {
		// io.ByteReader (what compress/flate uses on bitio.IOReadSeeker to find the compressed size)
		br, ok := nd.r.(io.ByteReader)
		if !ok {
			op = 0
		} else {
			c.logf("ReadByte at pos %d", nd.pos)
			b, err := br.ReadByte()
			c.logf("  -> (%#x,%v)", b, err)
			c.run.Count("op:ReadByte", 1)
			if nd.pos >= L {
				if err == nil {
					c.fail("ReadByte:beyond-end", "ReadByte at %d with len %d returned (%#x,nil)", nd.pos, L, b)
				}
				return
			}
			if b != nd.m[nd.pos] || (err != nil && !(errors.Is(err, io.EOF) && nd.pos+1 == L)) {
				c.fail("ReadByte:wrong-byte", "ReadByte at %d with len %d returned (%#x,%v) want %#x", nd.pos, L, b, err, nd.m[nd.pos])
				return
			}
			nd.pos++
			return
		}
	}
	switch op {
	case 0, 1, 2: // Read
		k := int(c.pickLen(max(L-nd.pos, 0)*8) / 8)
		if r.Intn(4) == 0 {
			k = r.Intn(5)
		}
		p := r.Bytes(k)
		c.logf("Read(%d) at pos %d", k, nd.pos)
		n, err := nd.r.Read(p)
		c.logf("  -> (%d,%v)", n, err)
		c.run.Count("op:Read", 1)
		if c.faultFired {
			c.weakRead("Read", L*8, int64(k)*8, nd.pos*8, int64(n)*8, err, func() (int64, bool) {
				if n >= 0 && nd.pos+int64(n) <= L && bytes.Equal(p[:n], nd.m[nd.pos:nd.pos+int64(n)]) {
					return 0, true
				}
				return 0, false
			})
			return
		}
		if n < 0 || n > k {
			c.fail("Read:count-out-of-range", "Read(%d) returned %d", k, n)
			return
		}
		if nd.pos >= L {
			if n != 0 || (k > 0 && err == nil) {
				c.fail("Read:beyond-end", "Read(%d) at %d with len %d returned (%d,%v)", k, nd.pos, L, n, err)
			}
			return
		}
		if nd.pos+int64(n) > L {
			c.fail("Read:bytes-beyond-end", "Read(%d) at %d with len %d returned %d bytes", k, nd.pos, L, n)
			return
		}
		if !bytes.Equal(p[:n], nd.m[nd.pos:nd.pos+int64(n)]) {
			c.fail("Read:wrong-bytes", "Read(%d) at %d with len %d returned %x want %x", k, nd.pos, L, head(p[:n]), head(nd.m[nd.pos:nd.pos+int64(n)]))
			return
		}
		if err != nil {
			if !errors.Is(err, io.EOF) {
				c.fail("Read:unexpected-error", "Read(%d) at %d with len %d: %v", k, nd.pos, L, err)
				return
			}
			if nd.pos+int64(n) != L {
				c.fail("Read:eof-not-at-end", "Read(%d) at %d with len %d returned EOF after %d bytes", k, nd.pos, L, n)
				return
			}
		}
		nd.pos += int64(n)
	case 3, 4: // Seek
		whence := r.Intn(3)
		if whence == io.SeekEnd && !nd.endExact {
			whence = io.SeekStart
		}
		var base int64
		switch whence {
		case io.SeekCurrent:
			base = nd.pos
		case io.SeekEnd:
			base = L
		}
		target := c.pickOff(L)
		if target > L && r.Bool() {
			target = L
		}
		arg := target - base
		c.logf("Seek(%d, whence=%d) from pos %d (target %d)", arg, whence, nd.pos, target)
		got, err := nd.r.Seek(arg, whence)
		c.logf("  -> (%d,%v)", got, err)
		c.run.Count(fmt.Sprintf("op:Seek:whence%d", whence), 1)
		if target < L || (target == L && nd.endExact) {
			if err != nil || got != target {
				c.fail(fmt.Sprintf("Seek:whence%d:valid-target", whence), "Seek(%d, whence=%d) with cursor %d on len %d (target %d) returned (%d,%v)", arg, whence, nd.pos, L, target, got, err)
				return
			}
			nd.pos = target
		} else if err == nil {
			if got != target {
				c.fail(fmt.Sprintf("Seek:whence%d:beyond-end-value", whence), "Seek(%d, whence=%d) to %d beyond len %d succeeded with %d", arg, whence, target, L, got)
				return
			}
			nd.pos = target
		} else {
			// rejected: cursor must be unchanged; verified by the following reads
			c.run.Count("seek:beyond-end-rejected", 1)
		}
	case 5: // io.ReadFull
		if nd.pos > L {
			return
		}
		k := int(min(int64(r.Intn(300)), L-nd.pos))
		p := r.Bytes(k)
		c.logf("io.ReadFull(%d) at pos %d", k, nd.pos)
		n, err := io.ReadFull(nd.r, p)
		c.logf("  -> (%d,%v)", n, err)
		c.run.Count("op:io.ReadFull", 1)
		if err != nil || n != k {
			c.fail("io.ReadFull:short", "io.ReadFull(%d) at %d with len %d returned (%d,%v)", k, nd.pos, L, n, err)
			return
		}
		if !bytes.Equal(p, nd.m[nd.pos:nd.pos+int64(k)]) {
			c.fail("io.ReadFull:wrong-bytes", "io.ReadFull(%d) at %d with len %d returned %x want %x", k, nd.pos, L, head(p), head(nd.m[nd.pos:nd.pos+int64(k)]))
			return
		}
		nd.pos += int64(k)
	}
}

// one random history; id makes it reproducible alone
func (c *c01) history(id uint64, depth int, maxBytes int, ops int) {
	c.rng = gen.New(c.run.Seed).Fork(id)
	c.log = nil
	c.failed = false
	c.faultFired, c.weak, c.ended = false, false, false
	c.kinds = map[string]bool{}
	defer c.cleanupCase()
	var opKinds strings.Builder
	before := c.run.Counter("read:unaligned")
	if c.rng.Intn(3) == 0 {
		nd := c.genByte(depth, maxBytes)
		c.shape = nd.shape
		c.logf("byte-level history on %s (len %d)", nd.shape, len(nd.m))
		for i := 0; i < ops && !c.failed && !c.ended; i++ {
			c.opByte(nd)
			if c.faultFired {
				c.ended = true
			}
		}
		opKinds.WriteString("byte")
	} else {
		nd := c.genBit(depth, maxBytes)
		c.shape = nd.shape
		c.logf("bit-level history on %s (len %d bits)", nd.shape, nd.m.n)
		nodes := []*bitNode{nd}
		for i := 0; i < ops && !c.failed && !c.ended; i++ {
			c.opBit(&nodes)
			if c.faultFired {
				c.ended = true
			}
		}
		opKinds.WriteString("bit")
	}
	c.run.Eval(1)
	for k := range c.kinds {
		c.run.Count("kind:"+k, 1)
	}
	nontrivial := c.run.Counter("read:unaligned") > before || strings.Contains(c.shape, "(")
	if nontrivial {
		c.run.Distinct(shapeClass(c.shape) + "|" + opKinds.String() + fmt.Sprint(id%97))
	}
	if id < 4 {
		c.run.Sample(map[string]any{"case": id, "shape": c.shape, "ops": c.log[:min(len(c.log), 12)]})
	}
}

// shapeClass strips the numbers from a shape so that distinct counts composition shapes
func shapeClass(s string) string {
	var sb strings.Builder
	for _, ch := range s {
		if ch >= '0' && ch <= '9' {
			continue
		}
		sb.WriteRune(ch)
	}
	return sb.String()
}

func c01Main(args []string) {
	run := ev.NewRun("C01")
	run.Rule = "random reader trees (depth<=3 quick / <=5 thorough) built together with a reference bit string; every ReadBitsAt/ReadBits/SeekBits/ReadAtFull/ReadFull/Clone/byte-view call and every Read/Seek on byte-level wrappers is checked online against the model; plus exhaustive Read64/Write64 and exhaustive (off,n) sweeps over every basic reader and 2-node composition on short buffers. non-trivial = history on a composed reader or with >=1 unaligned read; distinct = (shape class with numbers stripped, level, case bucket)"
	run.Assumptions = []string{
		"negative absolute seek targets and negative read offsets are outside the property's domain (only checked for panics)",
		"byte-level SeekEnd on a view whose bit length is not a multiple of 8 is not checked (end is ambiguous)",
	}
	scratch, err := os.MkdirTemp("", "verif-c01-")
	if err != nil {
		panic(err)
	}
	defer os.RemoveAll(scratch)
	ev.AtExit(func() { os.RemoveAll(scratch) })
	c := &c01{run: run, scratch: scratch}

	if len(args) >= 2 && args[0] == "--replay" {
		c01Replay(c, args[1])
		return
	}

	c01Exhaustive64(run)
	c01ExhaustiveReaders(c)
	c01Writers(c)

	n := run.Pick(60000, 3000000)
	depth := run.Pick(3, 5)
	ids := make(chan int, 256)
	var wg sync.WaitGroup
	for w := 0; w < runtime.NumCPU(); w++ {
		wg.Add(1)
		go func() {
			defer wg.Done()
			wc := &c01{run: run, scratch: scratch}
			for id := range ids {
				maxBytes := 300
				if id%50 == 7 {
					maxBytes = 5000
				}
				if id%4000 == 11 {
					maxBytes = 600 * 1024 // crosses the real 512 KiB read-ahead block
				}
				ops := 40 + (id%5)*40
				func() {
					defer func() {
						if r := recover(); r != nil {
							wc.fail(fmt.Sprintf("panic:%s", panicSite(r)), "panic during history %d: %v", id, r)
						}
					}()
					wc.history(uint64(id), depth, maxBytes, ops)
				}()
			}
		}()
	}
	for id := 0; id < n; id++ {
		ids <- id
	}
	close(ids)
	wg.Wait()
	run.Finish()
}

func panicSite(r any) string {
	s := fmt.Sprint(r)
	if len(s) > 60 {
		s = s[:60]
	}
	return s
}

func c01Replay(c *c01, path string) {
	fmt.Println("replay: re-running the whole seeded case list is the replay for C01 (cases are a pure function of VERIF_SEED); see", path)
	c.run.Finish()
}
