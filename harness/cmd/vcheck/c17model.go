package main

// C17 reference model: the DOCUMENTED command line contract of fq, written from `fq -h`, doc/usage.md,
// the flag table `_opt_cli_opts` (options.jq), the exit codes `_exit_code_*` (internal.jq), the examples in
// pkg/interp/testdata/{args,exitcode,inputs,argvars}.fqtest and jq's manual for the jq-compatible modes.
// It never calls fq: argv is parsed by the getopt-like grammar below, files are classified by magic / by
// encoding/json, and programs are run on VANILLA gojq fed the way jq's manual prescribes.
//
// Calibration notes (what was learnt from ~230 hand-written command lines; behaviour that only pins down
// something the documents leave open is encoded here, behaviour that contradicts them is NOT):
//  * an argument is a flag iff its part before the first "=" matches ^--?[^-\d]  (args.fqtest: -0 and -123 are
//    programs); "--" ends flag parsing; a value-taking flag takes the NEXT argument whatever it looks like.
//  * combined short flags are boolean flags; a value-taking short flag may close the group (-nd json), anywhere
//    else in the group it is an argument error (fq: "-d: needs an argument").
//  * -h takes an optional TOPIC: the next argument if there is one.
//  * explicit single format (-d json bad.json): the decode error is part of the tree, the input counts as
//    processed and the exit status is 0. "undecodable => 4" applies to probe and to multi-format groups
//    (-d image); an unknown format name makes every opened input undecodable ("format group not found" => 4).
//  * -R over several files yields the lines of the CONCATENATED contents (jq does the same); -Rs the
//    concatenated string; failing files are skipped.
//  * -n never opens an input unless the program asks for it (input/inputs), so failing inputs that are never
//    reached are not reported.
//  * order of the early exits: argv syntax, then -o @file / --argjson / -f / --raw-file, then -h, -v, then
//    --argdecode, then compilation. (The generator never mixes -h/-v with an injected error, so this order is
//    only needed to be total.)
//  * -o KEY=VALUE is applied after the flags (-c -o compact=false is not compact).
//  * duplicate names across --arg/--argjson are left out: jq (first wins) and gojq (last wins) disagree.
//  * -j together with --raw-output0 is left out: jq's manual does not say which terminator wins.
// Model mistakes found by the first runs and fixed (fq was right):
//  * -o KEY=@PATH reads PATH for unknown keys too, not only for string-typed known ones => unreadable PATH is
//    an argument error (doc/usage.md "@PATH will read string from file at PATH").
//  * file names are cleaned before lookup ("./f.json" is "f.json").
//  * the empty program is the identity (jq), gojq.Parse("") alone does not say so.
//  * programs must not index their input: inputs are fq decode values (also after fromjson), whose .a / .[]
//    are more lenient than jq's and, for JSON objects, unordered. That is not a command line matter; the
//    generator only uses whole-value operations.
//  * a runtime error line carries the name of the input being filtered; with -s/-n that is the last opened
//    file (as in jq), so only per-input runs require exactly one line per failing input.
// Departures from the documents that were confirmed on the unchanged tree are NOT encoded here: the model
// keeps predicting the documented behaviour and c17.go gives each of them its own signature (c17TraitSig).

import (
	"bytes"
	"encoding/json"
	"fmt"
	"io"
	"math/big"
	"path"
	"regexp"
	"sort"
	"strings"
	"unicode/utf8"

	"github.com/wader/gojq"
)

const (
	c17Bool = iota
	c17Str
	c17OptStr
	c17Arr
	c17Obj
	c17Pairs
)

type c17Flag struct {
	key     string
	short   string
	long    string
	aliases []string
	kind    int
}

// documented flag table (fq -h; aliases from _opt_cli_opts). "--rawfile" is jq's own spelling of --raw-file:
// the property demands jq's named file arguments, and options.jq announces a jq-compatibility alias.
var c17Flags = []c17Flag{
	{"arg", "", "--arg", nil, c17Pairs},
	{"argdecode", "", "--argdecode", []string{"--decode-file"}, c17Pairs},
	{"argjson", "", "--argjson", nil, c17Pairs},
	{"compact", "-c", "--compact-output", nil, c17Bool},
	{"color_output", "-C", "--color-output", nil, c17Bool},
	{"decode_group", "-d", "--decode", nil, c17Str},
	{"expr_file", "-f", "--from-file", nil, c17Str},
	{"show_help", "-h", "--help", nil, c17OptStr},
	{"join_output", "-j", "--join-output", nil, c17Bool},
	{"include_path", "-L", "--include-path", nil, c17Arr},
	{"null_output", "", "--raw-output0", []string{"--nul-output"}, c17Bool},
	{"null_input", "-n", "--null-input", nil, c17Bool},
	{"monochrome_output", "-M", "--monochrome-output", nil, c17Bool},
	{"option", "-o", "--option", nil, c17Obj},
	{"string_input", "-R", "--raw-input", nil, c17Bool},
	{"raw_file", "", "--raw-file", []string{"--rawfile"}, c17Pairs},
	{"raw_string", "-r", "--raw-output", nil, c17Bool},
	{"repl", "-i", "--repl", nil, c17Bool},
	{"slurp", "-s", "--slurp", nil, c17Bool},
	{"unicode_output", "-U", "--unicode-output", nil, c17Bool},
	{"value_output", "-V", "--value-output", nil, c17Bool},
	{"show_version", "-v", "--version", nil, c17Bool},
}

func c17Lookup(name string) *c17Flag {
	for i := range c17Flags {
		f := &c17Flags[i]
		if name == f.long || (f.short != "" && name == f.short) {
			return f
		}
		for _, a := range f.aliases {
			if name == a {
				return f
			}
		}
	}
	return nil
}

type c17Named struct {
	kind string // arg argjson raw_file argdecode
	name string
	val  string
}

type c17Parsed struct {
	argErr    string
	bools     map[string]bool
	strs      map[string]string
	help      bool
	named     []c17Named
	options   [][2]string
	rest      []string
	flagsUsed []string // canonical spellings seen, for evidence and the distinct key
}

var c17FlagRe = regexp.MustCompile(`^--?[^-\d]`)

func c17ParseArgs(args []string) c17Parsed {
	p := c17Parsed{bools: map[string]bool{}, strs: map[string]string{}}
	i := 0
	// apply one looked-up flag; name is the spelling, returns false on error
	apply := func(f *c17Flag, spelling string, hasEq bool, val string) bool {
		p.flagsUsed = append(p.flagsUsed, spelling)
		switch f.kind {
		case c17Bool:
			if hasEq {
				p.argErr = "bool-with-value"
				return false
			}
			p.bools[f.key] = true
		case c17Str, c17Arr, c17Obj, c17OptStr:
			v := val
			if !hasEq {
				if i+1 < len(args) {
					i++
					v = args[i]
				} else if f.kind == c17OptStr {
					p.help = true
					return true
				} else {
					p.argErr = "missing-value"
					return false
				}
			}
			switch f.kind {
			case c17OptStr:
				p.help = true
			case c17Obj:
				k := strings.Index(v, "=")
				if k < 0 {
					p.argErr = "option-not-key-value"
					return false
				}
				p.options = append(p.options, [2]string{v[:k], v[k+1:]})
			case c17Str:
				p.strs[f.key] = v
			}
		case c17Pairs:
			if hasEq {
				// the two-valued flags have no documented --flag=value form; like --bool=v it is an argument error
				p.argErr = "pairs-with-eq-form"
				return false
			}
			if i+2 >= len(args) {
				p.argErr = "missing-value"
				return false
			}
			p.named = append(p.named, c17Named{f.key, args[i+1], args[i+2]})
			i += 2
		}
		return true
	}
	for ; i < len(args); i++ {
		a := args[i]
		if a == "--" {
			p.rest = append(p.rest, args[i+1:]...)
			break
		}
		name, val, hasEq := a, "", false
		if k := strings.Index(a, "="); k >= 0 {
			name, val, hasEq = a[:k], a[k+1:], true
		}
		if !c17FlagRe.MatchString(name) {
			p.rest = append(p.rest, a)
			continue
		}
		if f := c17Lookup(name); f != nil {
			if !apply(f, name, hasEq, val) {
				return p
			}
			continue
		}
		rs := []rune(name)
		if rs[1] == '-' || len(rs) == 2 {
			p.argErr = "unknown-flag"
			return p
		}
		// combined short flags
		for k := 1; k < len(rs); k++ {
			sp := "-" + string(rs[k])
			f := c17Lookup(sp)
			if f == nil || f.short == "" {
				p.argErr = "unknown-flag-in-group"
				return p
			}
			last := k == len(rs)-1
			if f.kind != c17Bool && !last {
				p.argErr = "value-flag-inside-group"
				return p
			}
			if !apply(f, sp, hasEq && last, val) {
				return p
			}
		}
	}
	return p
}

// ---- virtual file system view ----

type c17FS struct {
	files map[string][]byte
	dirs  map[string]bool
	stdin []byte
}

const (
	c17Ok = iota
	c17Missing
	c17IsDir
)

func (fs *c17FS) read(name string) ([]byte, int) {
	name = path.Clean(name)
	if b, ok := fs.files[name]; ok {
		return b, c17Ok
	}
	if fs.dirs[name] {
		return nil, c17IsDir
	}
	return nil, c17Missing
}

// c17JSONValue parses a text that holds exactly one JSON value into gojq's value domain.
func c17JSONValue(b []byte) (any, bool) {
	dec := json.NewDecoder(bytes.NewReader(b))
	dec.UseNumber()
	var v any
	if err := dec.Decode(&v); err != nil {
		return nil, false
	}
	if _, err := dec.Token(); err != io.EOF {
		return nil, false
	}
	return c17Norm(v), true
}

func c17Norm(v any) any {
	switch v := v.(type) {
	case json.Number:
		s := v.String()
		if !strings.ContainsAny(s, ".eE") {
			bi, ok := new(big.Int).SetString(s, 10)
			if ok {
				if bi.IsInt64() {
					return int(bi.Int64())
				}
				return bi
			}
		}
		f, _ := v.Float64()
		return f
	case []any:
		for i := range v {
			v[i] = c17Norm(v[i])
		}
		return v
	case map[string]any:
		for k := range v {
			v[k] = c17Norm(v[k])
		}
		return v
	}
	return v
}

func c17Magic(b []byte) string {
	switch {
	case len(b) > 2 && b[0] == 0x1f && b[1] == 0x8b:
		return "gzip"
	case bytes.HasPrefix(b, []byte("\x89PNG\r\n\x1a\n")):
		return "png"
	}
	if _, ok := c17JSONValue(b); ok {
		return "json"
	}
	return ""
}

// decodeStatus: how a readable file fares under the decode spec. opaque = decoded, but not to a value the
// jq reference can hold (binary tree, forced format with an embedded error).
const (
	c17DecJSON = iota
	c17DecOpaque
	c17DecFail
)

func c17Decode(spec string, b []byte) (int, any) {
	m := c17Magic(b)
	switch spec {
	case "probe":
		switch m {
		case "json":
			v, _ := c17JSONValue(b)
			return c17DecJSON, v
		case "gzip", "png":
			return c17DecOpaque, nil
		}
		return c17DecFail, nil
	case "json", "gzip", "png": // explicit single format: always a tree, errors inside it
		if spec == "json" && m == "json" {
			v, _ := c17JSONValue(b)
			return c17DecJSON, v
		}
		return c17DecOpaque, nil
	case "image": // multi-format group
		if m == "png" {
			return c17DecOpaque, nil
		}
		return c17DecFail, nil
	}
	return c17DecFail, nil // unknown format or group name
}

func c17SpecClass(spec string, rawInput bool) string {
	if rawInput {
		return "rawinput"
	}
	switch spec {
	case "probe":
		return "probe"
	case "json", "gzip", "png":
		return "forced"
	case "image":
		return "group"
	}
	return "unknownfmt"
}

// ---- prediction ----

type c17Failure struct {
	name  string
	class int    // 2 io, 4 decode
	what  string // missing directory undecodable
}

type c17Pred struct {
	parsed     c17Parsed
	skip       string // outside the model (repl)
	argErr     string // class of argument error => exit 2, nothing processed
	help       bool
	version    bool
	compile    bool // program does not compile => 3, nothing processed
	expr       string
	files      []string // nil = stdin
	spec       string
	nullIn     bool
	slurp      bool
	rawIn      bool
	color      bool
	failures   []c17Failure
	statuses   []string // per input in argument order: good missing directory undecodable unopened
	opaque     string   // why stdout/runtime errors cannot be computed by the jq reference ("" = full prediction)
	rtErrors   int
	noStdout   bool // colour output: stdout is not predicted, everything else is
	nulRefused bool
	rawEmpty   bool // -R over readable inputs whose concatenation is empty: jq yields no input at all // --raw-output0 met a string that contains NUL
	stdout     string
	exit       int // with opaque != "": exit from the input classes only (0 means "0 or 5")
	jqFlags    string
}

var c17FqOnly = regexp.MustCompile(`\b(format|tobytes|tovalue|input_filename|tohex|torepr)\b`)

func c17BoolOpt(s string) (bool, bool) {
	switch s {
	case "true":
		return true, true
	case "false":
		return false, true
	}
	return false, false
}

func c17Predict(args []string, fs *c17FS) *c17Pred {
	p := &c17Pred{parsed: c17ParseArgs(args)}
	pa := &p.parsed
	if pa.argErr != "" {
		p.argErr, p.exit = pa.argErr, 2
		return p
	}
	if pa.bools["repl"] {
		p.skip = "repl"
		return p
	}
	// ---- option evaluation errors (exit 2)
	compact := pa.bools["compact"]
	// options are merged into one object, the last value of a key wins and only that one is evaluated (an earlier
	// `-o k=@nosuchfile` that a later `-o k=...` overrides is never read: demanding an argument error for it was a
	// harness flaw found by the thorough tier)
	lastIdx := map[string]int{}
	for i, kv := range pa.options {
		lastIdx[kv[0]] = i
	}
	for i, kv := range pa.options {
		if lastIdx[kv[0]] != i {
			continue
		}
		switch kv[0] {
		case "compact":
			if b, ok := c17BoolOpt(kv[1]); ok {
				compact = b
			}
		case "bits_format", "c17other":
			// doc/usage.md: "@PATH will read string from file at PATH" (string-valued and unknown keys)
			if strings.HasPrefix(kv[1], "@") {
				if _, st := fs.read(kv[1][1:]); st != c17Ok {
					p.argErr, p.exit = "unreadable-option-file", 2
					return p
				}
			}
		default:
			if !strings.HasPrefix(kv[0], "c17") {
				p.skip = "option " + kv[0]
				return p
			}
		}
	}
	names := []string{}
	values := []any{}
	namedObj := map[string]any{}
	opaqueVar := false
	for _, n := range pa.named {
		if n.kind == "argjson" {
			if _, ok := c17JSONValue([]byte(n.val)); !ok {
				p.argErr, p.exit = "bad-argjson", 2
				return p
			}
		}
	}
	p.expr = "."
	rest := pa.rest
	if ef, ok := pa.strs["expr_file"]; ok {
		b, st := fs.read(ef)
		if st != c17Ok {
			p.argErr, p.exit = "unreadable-from-file", 2
			return p
		}
		p.expr = string(b)
	} else if len(rest) > 0 {
		p.expr, rest = rest[0], rest[1:]
	}
	if len(rest) > 0 {
		p.files = rest
	}
	for _, n := range pa.named {
		if n.kind == "raw_file" {
			if _, st := fs.read(n.val); st != c17Ok {
				p.argErr, p.exit = "unreadable-rawfile", 2
				return p
			}
		}
	}
	if pa.help {
		p.help = true
		return p
	}
	if pa.bools["show_version"] {
		p.version = true
		return p
	}
	p.spec = "probe"
	if s, ok := pa.strs["decode_group"]; ok {
		p.spec = s
	}
	for _, n := range pa.named {
		var v any
		switch n.kind {
		case "arg":
			v = n.val
		case "argjson":
			v, _ = c17JSONValue([]byte(n.val))
		case "raw_file":
			b, _ := fs.read(n.val)
			v = string(b)
		case "argdecode":
			b, st := fs.read(n.val)
			if st != c17Ok {
				p.argErr, p.exit = "unreadable-argdecode", 2
				return p
			}
			ds, dv := c17Decode(p.spec, b)
			switch ds {
			case c17DecFail:
				p.argErr, p.exit = "undecodable-argdecode", 2
				return p
			case c17DecOpaque:
				opaqueVar = true
			}
			v = dv
		}
		names = append(names, "$"+n.name)
		values = append(values, v)
		namedObj[n.name] = v
	}
	p.nullIn = pa.bools["null_input"]
	p.slurp = pa.bools["slurp"]
	p.rawIn = pa.bools["string_input"]
	p.color = pa.bools["color_output"] && !pa.bools["monochrome_output"]
	rawOut := pa.bools["raw_string"] || pa.bools["join_output"] || pa.bools["null_output"]
	term := "\n"
	if pa.bools["join_output"] {
		term = ""
		if pa.bools["null_output"] {
			p.skip = "-j with --raw-output0"
			return p
		}
	} else if pa.bools["null_output"] {
		term = "\x00"
	}
	{
		var fl []string
		for _, k := range []struct{ key, f string }{{"null_input", "n"}, {"slurp", "s"}, {"string_input", "R"}, {"raw_string", "r"}, {"join_output", "j"}, {"null_output", "0"}, {"compact", "c"}} {
			if pa.bools[k.key] {
				fl = append(fl, k.f)
			}
		}
		p.jqFlags = "-" + strings.Join(fl, "")
	}

	// ---- compilation, on vanilla gojq. fq-only functions are stubbed so that they compile; such programs
	// cannot be evaluated by the reference.
	names = append(names, "$ARGS")
	values = append(values, map[string]any{"positional": []any{}, "named": namedObj})
	im := &c17Inputs{p: p, fs: fs}
	opts := []gojq.CompilerOption{gojq.WithVariables(names), gojq.WithInputIter(im), gojq.WithEnvironLoader(func() []string { return nil })}
	fqOnly := c17FqOnly.MatchString(p.expr)
	for _, fn := range []string{"format", "tobytes", "tovalue", "input_filename", "tohex", "torepr"} {
		opts = append(opts, gojq.WithFunction(fn, 0, 0, func(any, []any) any { return nil }))
	}
	src := p.expr
	if strings.TrimSpace(src) == "" {
		src = "." // jq: the empty program is the identity
	}
	q, err := gojq.Parse(src)
	var code *gojq.Code
	if err == nil {
		code, err = gojq.Compile(q, opts...)
	}
	if err != nil {
		p.compile, p.exit = true, 3
		return p
	}
	if fqOnly {
		p.opaque = "fq-only function"
	} else if opaqueVar {
		p.opaque = "binary --argdecode value"
	}
	if p.opaque != "" && p.nullIn {
		p.skip = "-n with a program the reference cannot evaluate"
		return p
	}

	// ---- run
	var out strings.Builder
	emit := func(v any) bool {
		if s, ok := v.(string); ok && rawOut {
			if term == "\x00" && strings.Contains(s, "\x00") {
				p.nulRefused = true
				return false // jq manual: --raw-output0 refuses a string that contains NUL
			}
			out.WriteString(s)
		} else {
			c17Enc(&out, v, !compact, 0)
		}
		out.WriteString(term)
		return true
	}
	runOnce := func(v any) {
		it := code.Run(v, values...)
		for {
			o, ok := it.Next()
			if !ok {
				return
			}
			if _, isErr := o.(error); isErr {
				p.rtErrors++
				return
			}
			if !emit(o) {
				p.rtErrors++
				return
			}
		}
	}
	if p.nullIn {
		runOnce(nil)
	} else {
		for {
			v, ok := im.Next()
			if !ok {
				break
			}
			if p.opaque == "" {
				runOnce(v)
			}
		}
	}
	for len(p.statuses) < len(im.names()) {
		p.statuses = append(p.statuses, "unopened")
	}
	p.stdout = out.String()
	p.noStdout = p.color
	for _, f := range p.failures {
		if f.class == 2 {
			p.exit = 2
		} else if p.exit == 0 {
			p.exit = 4
		}
	}
	if p.exit == 0 && p.opaque == "" && p.rtErrors > 0 {
		p.exit = 5
	}
	return p
}

// c17Inputs is jq's input stream over the argument files: failing files are recorded and skipped.
type c17Inputs struct {
	p      *c17Pred
	fs     *c17FS
	pos    int
	queue  []any
	primed bool
}

func (im *c17Inputs) names() []string {
	if im.p.files == nil {
		return []string{"<stdin>"}
	}
	return im.p.files
}

func (im *c17Inputs) open(i int) ([]byte, bool) {
	p := im.p
	name := im.names()[i]
	var b []byte
	st := c17Ok
	if p.files == nil {
		b = im.fs.stdin
	} else {
		b, st = im.fs.read(name)
	}
	switch st {
	case c17Missing:
		p.failures = append(p.failures, c17Failure{name, 2, "missing"})
		p.statuses = append(p.statuses, "missing")
		return nil, false
	case c17IsDir:
		p.failures = append(p.failures, c17Failure{name, 2, "directory"})
		p.statuses = append(p.statuses, "directory")
		return nil, false
	}
	return b, true
}

func (im *c17Inputs) decodeNext() (any, bool) {
	p := im.p
	for im.pos < len(im.names()) {
		i := im.pos
		im.pos++
		b, ok := im.open(i)
		if !ok {
			continue
		}
		ds, v := c17Decode(p.spec, b)
		switch ds {
		case c17DecFail:
			p.failures = append(p.failures, c17Failure{im.names()[i], 4, "undecodable"})
			p.statuses = append(p.statuses, "undecodable")
			continue
		case c17DecOpaque:
			if p.opaque == "" {
				p.opaque = "binary or forced-format input"
			}
		}
		p.statuses = append(p.statuses, "good")
		return v, true
	}
	return nil, false
}

func (im *c17Inputs) Next() (any, bool) {
	p := im.p
	if len(im.queue) > 0 {
		v := im.queue[0]
		im.queue = im.queue[1:]
		return v, true
	}
	if im.primed {
		return nil, false
	}
	switch {
	case p.rawIn:
		im.primed = true
		var all []byte
		for im.pos < len(im.names()) {
			i := im.pos
			im.pos++
			if b, ok := im.open(i); ok {
				p.statuses = append(p.statuses, "good")
				all = append(all, b...)
			}
		}
		if !utf8.Valid(all) && p.opaque == "" {
			p.opaque = "raw input that is not UTF-8"
		}
		if p.slurp {
			return string(all), true
		}
		if len(all) == 0 {
			p.rawEmpty = len(p.statuses) > len(p.failures)
			return nil, false
		}
		for _, l := range strings.Split(strings.TrimSuffix(string(all), "\n"), "\n") {
			im.queue = append(im.queue, l)
		}
		return im.Next()
	case p.slurp:
		im.primed = true
		arr := []any{}
		for {
			v, ok := im.decodeNext()
			if !ok {
				break
			}
			arr = append(arr, v)
		}
		return arr, true
	}
	return im.decodeNext()
}

// c17Enc is jq's output layout (--indent 2 or -c) over gojq's scalar encoding.
func c17Enc(sb *strings.Builder, v any, indent bool, level int) {
	nl := func(l int) {
		if indent {
			sb.WriteByte('\n')
			sb.WriteString(strings.Repeat("  ", l))
		}
	}
	switch v := v.(type) {
	case []any:
		if len(v) == 0 {
			sb.WriteString("[]")
			return
		}
		sb.WriteByte('[')
		for i, e := range v {
			if i > 0 {
				sb.WriteByte(',')
			}
			nl(level + 1)
			c17Enc(sb, e, indent, level+1)
		}
		nl(level)
		sb.WriteByte(']')
	case map[string]any:
		if len(v) == 0 {
			sb.WriteString("{}")
			return
		}
		keys := make([]string, 0, len(v))
		for k := range v {
			keys = append(keys, k)
		}
		sort.Strings(keys)
		sb.WriteByte('{')
		for i, k := range keys {
			if i > 0 {
				sb.WriteByte(',')
			}
			nl(level + 1)
			kb, _ := gojq.Marshal(k)
			sb.Write(kb)
			sb.WriteByte(':')
			if indent {
				sb.WriteByte(' ')
			}
			c17Enc(sb, v[k], indent, level+1)
		}
		nl(level)
		sb.WriteByte('}')
	default:
		b, err := gojq.Marshal(v)
		if err != nil {
			fmt.Fprintf(sb, "<marshal error %v>", err)
			return
		}
		sb.Write(b)
	}
}
