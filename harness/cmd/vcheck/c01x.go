package main

// C01 exhaustive small-scope parts: Read64/Write64/ReverseBytes64, every basic reader and
// 2-node composition over short buffers with the full (off,n) sweep, bit writers.

import (
	"bytes"
	"fmt"
	"io"
	"math/big"

	"github.com/wader/fq/pkg/bitio"
	"github.com/wader/fq/pkg/verifx"

	"verif/ev"
	"verif/gen"
)

func c01Exhaustive64(run *ev.Run) {
	rng := gen.New(run.Seed).Fork(0xC0164)
	patterns := [][]byte{}
	mk := func(f func(i int) byte) {
		b := make([]byte, 12)
		for i := range b {
			b[i] = f(i)
		}
		patterns = append(patterns, b)
	}
	mk(func(i int) byte { return 0 })
	mk(func(i int) byte { return 0xff })
	mk(func(i int) byte { return 0xaa })
	mk(func(i int) byte { return 0x55 })
	mk(func(i int) byte { return byte(i*37 + 1) })
	mk(func(i int) byte { return 0x80 })
	nRandom := run.Pick(8, 200)
	for i := 0; i < nRandom; i++ {
		patterns = append(patterns, rng.Bytes(12))
	}
	failed := false
	for pi, pat := range patterns {
		model := bstrFromBytes(pat, -1)
		for first := int64(0); first < 24; first++ {
			for n := int64(0); n <= 64; n++ {
				// Read64 vs big-integer value of the bits
				want := new(big.Int)
				for i := int64(0); i < n; i++ {
					want.Lsh(want, 1)
					if model.bit(first+i) == 1 {
						want.Or(want, big.NewInt(1))
					}
				}
				got := bitio.Read64(pat, first, n)
				run.Count("op:Read64", 1)
				if !failed && new(big.Int).SetUint64(got).Cmp(want) != 0 {
					failed = true
					run.Violation(fmt.Sprintf("Read64:first%%8=%d:n%%8=%d", first%8, n%8), fmt.Sprintf("Read64(%x, firstBit=%d, nBits=%d) = %#x want %#x", pat, first, n, got, want), map[string]any{"buf": fmt.Sprintf("%x", pat), "first": first, "n": n})
				}
				// Write64 of a value into a background: only [first,first+n) changes, and it holds v
				v := rng.U64()
				if pi%3 == 0 {
					v = ^uint64(0)
				} else if pi%3 == 1 {
					v = 0
				}
				if n < 64 {
					v &= (uint64(1) << uint(n)) - 1
				}
				bg := append([]byte(nil), patterns[(pi+1)%len(patterns)]...)
				orig := append([]byte(nil), bg...)
				bitio.Write64(v, n, bg, first)
				run.Count("op:Write64", 1)
				ob := bstrFromBytes(orig, -1)
				nb := bstrFromBytes(bg, -1)
				ok := true
				for i := int64(0); i < ob.n; i++ {
					var wantBit byte
					if i >= first && i < first+n {
						wantBit = byte(v>>uint(n-1-(i-first))) & 1
					} else {
						wantBit = ob.bit(i)
					}
					if nb.bit(i) != wantBit {
						ok = false
						break
					}
				}
				if !ok && !failed {
					failed = true
					run.Violation(fmt.Sprintf("Write64:first%%8=%d:n%%8=%d", first%8, n%8), fmt.Sprintf("Write64(%#x, nBits=%d, buf=%x, firstBit=%d) gave %x", v, n, orig, first, bg), map[string]any{"v": v, "first": first, "n": n})
				}
			}
		}
	}
	// ReverseBytes64 for whole-byte widths against byte reversal
	for w := 8; w <= 64; w += 8 {
		for i := 0; i < 64; i++ {
			v := rng.U64()
			if w < 64 {
				v &= (uint64(1) << uint(w)) - 1
			}
			var want uint64
			for k := 0; k < w/8; k++ {
				want = want<<8 | (v>>(8*uint(k)))&0xff
			}
			got := bitio.ReverseBytes64(w, v)
			run.Count("op:ReverseBytes64", 1)
			if got != want && !failed {
				failed = true
				run.Violation(fmt.Sprintf("ReverseBytes64:%d", w), fmt.Sprintf("ReverseBytes64(%d, %#x) = %#x want %#x", w, v, got, want), nil)
			}
		}
	}
	run.Eval(int64(len(patterns)))
	run.Distinct("exhaustive64")
}

type mkReader struct {
	name string
	mk   func(b []byte, nbits int64) bitio.ReaderAtSeeker // content bits = first nbits of b
}

func basicReaders() []mkReader {
	return []mkReader{
		{"bitreader", func(b []byte, n int64) bitio.ReaderAtSeeker { return bitio.NewBitReader(b, n) }},
		{"section(iobit(bytes))", func(b []byte, n int64) bitio.ReaderAtSeeker {
			return bitio.NewSectionReader(bitio.NewIOBitReadSeeker(bytes.NewReader(b)), 0, n)
		}},
		{"multi-split", func(b []byte, n int64) bitio.ReaderAtSeeker {
			// split the content in three parts at n/3, 2n/3 (+ an empty reader in between)
			s := bstrFromBytes(b, n)
			a, c := n/3, 2*n/3
			p1, p2, p3 := s.slice(0, a), s.slice(a, c-a), s.slice(c, n-c)
			mr, err := bitio.NewMultiReader(bitio.NewBitReader(p1.b, p1.n), bitio.NewBitReader(nil, 0), bitio.NewBitReader(p2.b, p2.n), bitio.NewBitReader(p3.b, p3.n))
			if err != nil {
				panic(err)
			}
			return mr
		}},
		{"section-of-larger", func(b []byte, n int64) bitio.ReaderAtSeeker {
			// content embedded at bit offset 5 of a larger buffer
			var w bbuilder
			for i := 0; i < 5; i++ {
				w.add(1)
			}
			w.addStr(bstrFromBytes(b, n), 0, n)
			for i := 0; i < 11; i++ {
				w.add(byte(i & 1))
			}
			s := w.str()
			return bitio.NewSectionReader(bitio.NewBitReader(s.b, s.n), 5, n)
		}},
		{"iobit(ioreadseeker(bitreader))", func(b []byte, n int64) bitio.ReaderAtSeeker {
			// byte view pads to a byte; re-limit to n with a section
			return bitio.NewSectionReader(bitio.NewIOBitReadSeeker(bitio.NewIOReadSeeker(bitio.NewBitReader(b, n))), 0, n)
		}},
		{"iobit(ahead3(bytes))", func(b []byte, n int64) bitio.ReaderAtSeeker {
			return bitio.NewSectionReader(bitio.NewIOBitReadSeeker(verifx.NewAheadReader(bytes.NewReader(b), 3)), 0, n)
		}},
	}
}

// sweep all (off,n) requests of one reader against the model
func (c *c01) sweep(name string, r bitio.ReaderAtSeeker, m bstr) {
	c.shape = name
	nd := &bitNode{r: r, m: m, shape: name}
	L := m.n
	lens := []int64{}
	for n := int64(0); n <= L+9; n++ {
		lens = append(lens, n)
	}
	lens = append(lens, 63, 64, 65, 71)
	p := make([]byte, 16+L/8)
	for off := int64(0); off <= L+2; off++ {
		for _, n := range lens {
			for i := range p {
				p[i] = 0xa5
			}
			c.log = []string{fmt.Sprintf("ReadBitsAt(n=%d, off=%d) on %s len %d bits %s", n, off, name, L, m)}
			func() {
				defer func() {
					if rec := recover(); rec != nil {
						c.fail("panic:sweep:"+panicSite(rec), "panic in ReadBitsAt(n=%d, off=%d) on %s len %d: %v", n, off, name, L, rec)
					}
				}()
				got, err := nd.r.ReadBitsAt(p, n, off)
				c.checkRead("ReadBitsAt", nd, p, n, off, got, err)
				if off+n <= L {
					for i := range p {
						p[i] = 0x5a
					}
					got, err = bitio.ReadAtFull(guard(nd.r, n), p, n, off)
					c.run.Count("op:ReadAtFull", 1)
					if err != nil || got != n {
						c.fail("ReadAtFull:short", "ReadAtFull(n=%d, off=%d) on %s len %d returned (%d,%v)", n, off, name, L, got, err)
					} else if i, ok := eqBits(p, n, m, off); !ok {
						c.fail("ReadAtFull:wrong-bits", "ReadAtFull(n=%d, off=%d) on %s len %d: bit %d differs", n, off, name, L, i)
					}
				}
			}()
			if c.failed {
				return
			}
		}
	}
	// sequential: seek to every position with every whence, read 1..9 bits
	for pos := int64(0); pos <= L; pos++ {
		for whence := 0; whence < 3; whence++ {
			var arg int64
			switch whence {
			case io.SeekStart:
				arg = pos
			case io.SeekCurrent:
				arg = pos - nd.pos
			case io.SeekEnd:
				arg = pos - L
			}
			got, err := nd.r.SeekBits(arg, whence)
			c.run.Count(fmt.Sprintf("op:SeekBits:whence%d", whence), 1)
			if err != nil || got != pos {
				c.log = []string{fmt.Sprintf("sweep on %s len %d", name, L)}
				c.fail(fmt.Sprintf("SeekBits:whence%d:valid-target", whence), "SeekBits(%d, whence=%d) with cursor %d on %s len %d (target %d) returned (%d,%v)", arg, whence, nd.pos, name, L, pos, got, err)
				return
			}
			nd.pos = pos
			n := int64(1 + (pos+int64(whence)*3)%9)
			for i := range p {
				p[i] = 0xa5
			}
			c.log = []string{fmt.Sprintf("SeekBits(%d, whence=%d) then ReadBits(n=%d) at %d on %s len %d", arg, whence, n, pos, name, L)}
			m2, err := nd.r.ReadBits(p, n)
			c.checkRead("ReadBits", nd, p, n, pos, m2, err)
			if c.failed {
				return
			}
			if m2 > 0 {
				nd.pos += m2
			}
		}
	}
}

func c01ExhaustiveReaders(c *c01) {
	run := c.run
	rng := gen.New(run.Seed).Fork(0xC01E)
	maxLen := int64(run.Pick(20, 33))
	basics := basicReaders()
	for L := int64(0); L <= maxLen; L++ {
		nb := int((L + 7) / 8)
		contents := [][]byte{bytes.Repeat([]byte{0xff}, nb), bytes.Repeat([]byte{0xa6}, nb), rng.Bytes(nb)}
		for ci, content := range contents {
			// bits after L inside the last byte are deliberately the opposite of padding (ones) where possible
			m := bstrFromBytes(content, L)
			for _, b := range basics {
				c.failed = false
				c.sweep(fmt.Sprintf("%s/len%d/c%d", b.name, L, ci), b.mk(content, L), m)
				run.Eval(1)
				run.Distinct("sweep:" + b.name + fmt.Sprint(L))
			}
			if L > 17 || ci == 1 {
				continue
			}
			// 2-node compositions: outer section / multi of two inner basics
			for oi, ob := range basics {
				for ii, ib := range basics {
					if (oi+ii+int(L)+ci)%3 != int(run.Seed%3) && !run.Thorough() {
						continue // a third of the pairs per seed in quick, all in thorough
					}
					c.failed = false
					in1 := ob.mk(content, L)
					in2 := ib.mk(content, L)
					mr, err := bitio.NewMultiReader(in1, in2)
					if err != nil {
						run.Violation("multi-new-error", fmt.Sprintf("NewMultiReader(%s,%s): %v", ob.name, ib.name, err), nil)
						continue
					}
					c.sweep(fmt.Sprintf("multi(%s,%s)/len%d/c%d", ob.name, ib.name, L, ci), mr, bconcat(m, m))
					if L >= 3 {
						c.failed = false
						sec := bitio.NewSectionReader(mr, 2, 2*L-3)
						c.sweep(fmt.Sprintf("section[2+%d](multi(%s,%s))/len%d/c%d", 2*L-3, ob.name, ib.name, L, ci), sec, bconcat(m, m).slice(2, 2*L-3))
					}
					run.Eval(1)
					run.Distinct("sweep2:" + ob.name + ib.name + fmt.Sprint(L))
				}
			}
		}
	}
}

// c01Writers: bit writers and copies against the model
func c01Writers(c *c01) {
	run := c.run
	n := run.Pick(1500, 60000)
	for id := 0; id < n; id++ {
		rng := gen.New(run.Seed).Fork(0xC0100000 + uint64(id))
		c.rng = rng
		c.failed = false
		c.log = nil
		c.shape = "writers"
		func() {
			defer func() {
				if rec := recover(); rec != nil {
					c.fail("panic:writers:"+panicSite(rec), "panic in writer case %d: %v", id, rec)
				}
			}()
			content := c.content(300)
			big := id%40 == 1 || id%40 == 2 // FIFO / writer over > 64 KiB (buffer compaction, 32 KiB write chunks)
			if big {
				content = rng.Bytes(70000 + rng.Intn(140000))
			}
			L := int64(len(content)) * 8
			if L > 0 && rng.Bool() {
				L -= int64(rng.Intn(8))
			}
			src := bstrFromBytes(content, L)
			switch id % 4 {
			case 0: // IOBitWriter: random WriteBits splits + Flush
				var out bytes.Buffer
				w := bitio.NewIOBitWriter(&out)
				off := int64(0)
				for off < L {
					k := int64(rng.Intn(90)) + 1
					if rng.Intn(8) == 0 {
						k = int64(rng.Intn(2000))
					}
					if big {
						k = int64(rng.Intn(200000)) + 1 // stays below the 32 KiB (262144 bit) chunk of IOBitWriter
					}
					k = min(k, L-off)
					chunk := src.slice(off, k)
					p := append(append([]byte(nil), chunk.b...), 0xff) // trailing junk byte must be ignored
					if k%8 != 0 {
						p[k/8] |= 0xff >> uint(k%8) // junk in the unused low bits of the last byte
					}
					c.logf("IOBitWriter.WriteBits(%d bits)", k)
					wn, err := w.WriteBits(p, k)
					if err != nil || wn != k {
						c.fail("IOBitWriter:write", "WriteBits(%d)=(%d,%v)", k, wn, err)
						return
					}
					off += k
				}
				if err := w.Flush(); err != nil {
					c.fail("IOBitWriter:flush", "Flush: %v", err)
					return
				}
				run.Count("op:IOBitWriter", 1)
				if want := src.bytesPadded(); !bytes.Equal(out.Bytes(), want) {
					c.fail("IOBitWriter:content", "IOBitWriter wrote %x want %x (%d bits)", head(out.Bytes()), head(want), L)
				}
			case 1: // Buffer as FIFO: interleaved writes and reads
				var buf bitio.Buffer
				wOff, rOff := int64(0), int64(0)
				for rOff < L {
					if wOff < L && rng.Intn(3) != 0 {
						k := min(int64(rng.Intn(70))+1, L-wOff)
						if big {
							k = min(int64(rng.Intn(40000))+1, L-wOff)
						}
						chunk := src.slice(wOff, k)
						c.logf("Buffer.WriteBits(%d)", k)
						if wn, err := buf.WriteBits(chunk.b, k); err != nil || wn != k {
							c.fail("Buffer:write", "WriteBits(%d)=(%d,%v)", k, wn, err)
							return
						}
						wOff += k
					} else {
						k := int64(rng.Intn(70))
						if big {
							k = int64(rng.Intn(60000))
						}
						p := rng.Bytes(int(k/8) + 2)
						avail := wOff - rOff
						c.logf("Buffer.ReadBits(%d) with %d queued", k, avail)
						got, err := buf.ReadBits(p, k)
						want := min(k, avail)
						if got != want || (err != nil && !(avail == 0 && k > 0)) {
							c.fail("Buffer:read-count", "Buffer.ReadBits(%d) with %d bits queued returned (%d,%v)", k, avail, got, err)
							return
						}
						if i, ok := eqBits(p, got, src, rOff); !ok {
							c.fail("Buffer:read-bits", "Buffer.ReadBits(%d) at queue offset %d: bit %d differs", k, rOff, i)
							return
						}
						if buf.Len() != avail-got {
							c.fail("Buffer:len", "Buffer.Len()=%d want %d", buf.Len(), avail-got)
							return
						}
						rOff += got
					}
				}
				run.Count("op:BufferFIFO", 1)
			case 2: // bitio.Copy / CopyBuffer from a composed reader into an IOBitWriter
				c.kinds = map[string]bool{}
				nd := c.genBit(2, 200)
				var out bytes.Buffer
				w := bitio.NewIOBitWriter(&out)
				var cn int64
				var err error
				if rng.Bool() {
					cn, err = bitio.Copy(w, nd.r)
				} else {
					cn, err = bitio.CopyBuffer(w, nd.r, make([]byte, 1+rng.Intn(40)))
				}
				c.shape = "copy(" + nd.shape + ")"
				if err == nil {
					err = w.Flush()
				}
				run.Count("op:Copy", 1)
				if err != nil || cn != nd.m.n || !bytes.Equal(out.Bytes(), nd.m.bytesPadded()) {
					c.fail("Copy:mismatch", "bitio.Copy of %s (%d bits) = (%d,%v), bytes %x want %x", nd.shape, nd.m.n, cn, err, head(out.Bytes()), head(nd.m.bytesPadded()))
				}
				c.cleanupCase()
			case 3: // LimitReader over a reader: sequential reads never pass the limit
				c.kinds = map[string]bool{}
				nd := c.genBit(2, 200)
				lim := int64(0)
				if nd.m.n > 0 {
					lim = rng.Int63n(nd.m.n + 10)
				}
				lr := bitio.NewLimitReader(nd.r, lim)
				c.shape = fmt.Sprintf("limit%d(%s)", lim, nd.shape)
				eff := min(lim, nd.m.n)
				pos := int64(0)
				for step := 0; step < 400; step++ {
					k := c.pickLen(eff - pos)
					p := rng.Bytes(int((k+7)/8) + 1)
					c.logf("LimitReader.ReadBits(%d) at %d (limit %d, len %d)", k, pos, lim, nd.m.n)
					got, err := lr.ReadBits(p, k)
					lm := &bitNode{m: nd.m.slice(0, eff)}
					c.checkRead("LimitReader.ReadBits", lm, p, k, pos, got, err)
					if c.failed {
						break
					}
					pos += got
					if err != nil {
						break
					}
					if got == 0 && k > 0 && pos < eff {
						c.fail("LimitReader:no-progress", "ReadBits(%d) at %d of %d returned 0,nil", k, pos, eff)
						break
					}
				}
				run.Count("op:LimitReader", 1)
				c.cleanupCase()
			}
		}()
		run.Eval(1)
		run.Distinct(fmt.Sprintf("writer:%d:%d", id%4, id%13))
	}
}
