package main

// C07: deterministic sweep. The random programs reach every redefined built-in, but a given separator or
// regular expression only by chance; the sweep applies every redefined string built-in with EVERY pooled
// separator / regular expression / flag combination to a fixed set of strings, and the JSON conversions to
// the special numbers, so that e.g. one metacharacter missing from fq's _re_quote_meta is always seen.
// One evaluation handles all strings at once: [.[] | try [F] catch "E"]; on a disagreement the strings are
// re-run one by one with the plain program F and the first disagreeing (F, string) is reported and shrunk.

import (
	"fmt"
	"math"
)

var c07SweepStrings = []any{"abc,def,,ghi", "a1b22c333", "foo bar  baz", "aXbxc", "test.string+with*meta(chars)[x]{y}^$|\\end", "a.b.c", "a+b+c", "a|b|c", "a\\b\\c",
	"(x)(y)", "[1][2]", "{a}{b}", "^a^b$", "a?b?c", "a*b*c", "ax{2}bxxc", "$|$|", "😀a😀b", "éé", "a\x00b\x00c", "line1\nline2\r\nline3", "", "aaa", "ABC abc", "a", "ab", ".*", "\\d1\\d", "a, b..c"}

var c07SweepValues = []any{nil, true, false, 0, 1, -1, 1<<53 - 1, 1 << 53, 1<<53 + 1, math.MaxInt64, math.MinInt64, c07BigPow63, c07BigPow64, c07Big1e30, c07BigNeg,
	math.Copysign(0, -1), 0.1, 1.5, 1e308, -1e308, 5e-324, 1e21, 1e-7, 123456789.125, 1e17, 100.0, "", "a", "😀", "é", "a\x00b", "\"q\"\\", "\u007f \ufeff", "<&>'",
	[]any{}, map[string]any{}, []any{nil, 1.5, "x", []any{c07BigPow64}}, map[string]any{"b": 1, "a": map[string]any{"😀": []any{1e308, 5e-324}}, "": nil}}

type c07SweepCase struct {
	f      *c07Node
	inputs []any
	// uncaught: run F on every input on its own, without the try wrapper, at BOTH boundaries: the point of
	// failure (and, at the CLI, the failing exit status) must be the reference's for every error value.
	uncaught bool
}

var c07ErrorValues = []any{nil, false, true, 0, 1.5, -1, "", "x", "a\nb", "break", []any{}, []any{nil}, []any{1}, map[string]any{}, map[string]any{"a": nil}, map[string]any{"__jq": 0}, c07BigPow64}

func c07BuildSweep() []c07SweepCase {
	var out []c07SweepCase
	call := func(name string, args ...string) *c07Node {
		parts := []any{name}
		for i, a := range args {
			if i == 0 {
				parts = append(parts, "(")
			} else {
				parts = append(parts, "; ")
			}
			parts = append(parts, c07Leaf("literal", a))
		}
		if len(args) > 0 {
			parts = append(parts, ")")
		}
		n := c07N("call", true, parts...)
		n.fn = fmt.Sprintf("%s/%d", name, len(args))
		return n
	}
	strs := c07SweepStrings
	for _, sep := range c07SepPool {
		out = append(out, c07SweepCase{f: call("split", c07Quote(sep)), inputs: strs})
	}
	flags := []string{"null", `"g"`, `"i"`, `"gi"`, `"x"`, `""`}
	for _, re := range append(append([]string{}, c07RePool...), c07ReNamedPool...) {
		q := c07Quote(re)
		for _, name := range []string{"splits", "test", "match", "capture", "scan"} {
			out = append(out, c07SweepCase{f: call(name, q), inputs: strs})
		}
		for _, fl := range flags {
			for _, name := range []string{"split", "splits", "test", "match", "capture", "scan"} {
				out = append(out, c07SweepCase{f: call(name, q, fl), inputs: strs})
			}
		}
		// a replacement with several outputs multiplies the results per match: only without "g"
		out = append(out, c07SweepCase{f: call("sub", q, `(.w // "p", "q")`), inputs: strs})
		for _, repl := range []string{`"<\(.x // .a // "-")>"`, `"x"`} {
			out = append(out, c07SweepCase{f: call("sub", q, repl), inputs: strs})
			out = append(out, c07SweepCase{f: call("gsub", q, repl), inputs: strs})
			out = append(out, c07SweepCase{f: call("sub", q, repl, `"g"`), inputs: strs})
			out = append(out, c07SweepCase{f: call("gsub", q, repl, `"i"`), inputs: strs})
		}
	}
	plain := func(kind, fn, text string, inputs []any) {
		n := c07N(kind, false, text)
		n.atomic = c07TopLevelAtomic(text)
		n.fn = fn
		out = append(out, c07SweepCase{f: n, inputs: inputs})
	}
	for _, p := range [][2]string{{"explode/0", "explode"}, {"implode/0", "explode | implode"}, {"tojson/0", "tojson"}, {"tostring/0", "tostring"}, {"@json", `@json "v=\(.)"`},
		{"@text", `@text "v=\(.)"`}, {"ascii_downcase/0", "ascii_downcase"}, {"ltrimstr/1", `ltrimstr("a")`}, {"rtrimstr/1", `rtrimstr("c")`}, {"debug/0", "debug"}, {"debug/1", `debug("m: \(.)")`},
		{"stderr/0", "stderr"}, {"input_filename/0", "input_filename"}, {"implode/0", "explode | map(select(. < 128) | [.] | implode) | add"}} {
		plain("call", p[0], p[1], strs)
	}
	vals := c07SweepValues
	for _, p := range [][2]string{{"tojson/0", "tojson"}, {"tostring/0", "tostring"}, {"@json", `@json "v=\(.)"`}, {"@text", `@text "v=\(.)"`}, {"tojson/0", "[., [.]] | tojson"}, {"tojson/0", "{a: .} | tojson"},
		{"explode/0", "explode"}, {"implode/0", "[.] | implode"}, {"paths/0", "[paths]"}, {"paths/1", "[paths(type == \"number\")]"}, {"getpath/1", `getpath(["a","😀",0])`}, {"to_entries/0", "to_entries"},
		{"with_entries/1", "with_entries(.value |= tojson)"}, {"from_entries/0", "to_entries | from_entries"}, {"group_by/1", "group_by(.)"}, {"unique_by/1", "unique_by(type)"},
		{"debug/0", "debug"}, {"stderr/0", "stderr"}, {"debug/1", "debug(tojson)"}, {"split/1", `split(",")`}, {"test/1", `test("a")`}, {"tostring/0", "tostring | tojson"}, {"ltrimstr/1", `ltrimstr("a")`},
		{"tojson/0", "tojson | explode | implode"}, {"tojson/0", ". + 1 | tojson"}, {"tojson/0", ". * 2 | tojson"}, {"tojson/0", "-(.) | tojson"}, {"tojson/0", ". / 3 | tojson"}} {
		plain("call", p[0], p[1], vals)
	}
	// uncaught errors of every value kind, raised in different ways
	for _, f := range []string{"error", "error(.)", "1, error", "[.] | .[0] | error", "try error catch error", "try error catch error(.)", "def f: error; f", "if . then error else error end",
		". as $v | error($v)", "label $out | error", "try (try error catch error) catch error(.)", "{a: .} | error(.a)", "(1, 2) | if . == 2 then error(null) else . end",
		"first(., error)", "[.[]?] | error(.[0])", "error(null)", "error(false)", ".missing? // null | error", "try error(\"inner\") catch error(null)", "reduce (1, 2) as $i (.; error)", "limit(1; error)", "isvalid(error) , error", "error | 1", ".. | error"} {
		n := c07N("call", false, f)
		n.atomic = c07TopLevelAtomic(f)
		n.fn = "error/uncaught"
		out = append(out, c07SweepCase{f: n, inputs: c07ErrorValues, uncaught: true})
	}
	// the whole set of values at once through the JSON writer
	plain("call", "tojson/0", "tojson", []any{c07Copy(vals)})
	return out
}

func (w *c07Worker) sweepCase(id int, sc c07SweepCase) {
	run := w.run
	if sc.uncaught {
		w.sweepUncaught(id, sc)
		return
	}
	batch := c07N("sweep", true, "[.[] | try [", sc.f, "] catch \"E\"]")
	cli := id%10 == 0
	run.Count("sweep:cases", 1)
	run.Count("builtin:"+sc.f.fn, 1)
	o := w.check(batch.String(), sc.inputs, cli)
	run.Eval(1)
	if o.inconcl != "" {
		run.Inconclusive(o.inconcl)
		fmt.Printf("note: inconclusive sweep case (%s, ref timeout=%v fq timeout=%v): %s\n", o.inconcl, o.ref.timeout, o.fq.timeout, sc.f.String())
		return
	}
	if o.kind == "" {
		if len(o.ref.outs) == 1 {
			if a, ok := o.ref.outs[0].([]any); ok {
				run.Count("outputs-compared", int64(len(a)))
				for _, e := range a {
					if e == "E" {
						run.Count("sweep:error-both", 1)
					} else {
						run.Count("sweep:values-both", 1)
					}
				}
			}
		}
		run.Distinct("sweep:" + batch.String())
		return
	}
	run.Count("disagreement:"+o.kind, 1)
	for _, in := range sc.inputs {
		oi := w.check(sc.f.String(), in, cli)
		if oi.inconcl == "" && oi.kind != "" {
			w.report(id, c07CloneNode(sc.f), in, cli, oi)
			return
		}
	}
	w.report(id, batch, sc.inputs, cli, o)
}

func (w *c07Worker) sweepUncaught(id int, sc c07SweepCase) {
	run := w.run
	run.Count("sweep:cases", 1)
	run.Count("builtin:"+sc.f.fn, 1)
	for _, in := range sc.inputs {
		for _, cli := range []bool{false, true} {
			o := w.check(sc.f.String(), in, cli)
			run.Eval(1)
			if o.inconcl != "" {
				run.Inconclusive(o.inconcl)
				continue
			}
			if o.kind != "" {
				run.Count("disagreement:"+o.kind, 1)
				w.report(id, c07CloneNode(sc.f), in, cli, o)
				return
			}
			run.Count("outputs-compared", int64(len(o.ref.outs)))
			if o.ref.errored {
				run.Count(map[bool]string{true: "sweep:uncaught-error-both:cli", false: "sweep:uncaught-error-both:eval"}[cli], 1)
			} else {
				run.Count("sweep:uncaught-forms-that-did-not-fail", 1)
			}
		}
	}
	run.Distinct("sweep:uncaught:" + sc.f.String())
}
