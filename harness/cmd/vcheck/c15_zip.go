package main

// C15 zip: archive/zip (CreateHeader = streaming with data descriptors, CreateRaw = sizes/crc in the local header)
// and Python zipfile (seekable = no descriptors, unseekable sink = descriptors).
//
// APPNOTE 4.4.4 bit 3: with a data descriptor the local header's crc-32/compressed size/uncompressed size are
// zero and the real values follow the data; the central directory always has the real values.

import (
	"archive/zip"
	"bytes"
	"compress/flate"
	"encoding/binary"
	"fmt"
	"hash/crc32"
	"io"
	"time"
	"unicode/utf8"

	"verif/gen"
)

type c15ZipMember struct {
	name, comment string
	method        uint16
	level         int
	dd            bool // data descriptor
	dir           bool
	utf8          bool
	payload       []byte
	crc           uint32
	csize         int64 // compressed size (from the independent reader / writer info)
	raw           []byte
	mod           time.Time
	hasMod        bool
	extra         []byte // custom extra field payload (tag 0xcafe), nil = none
	localOff      int64  // offset of the local header (-1 unknown)
}

type c15ZipExp struct {
	members []*c15ZipMember
	comment string
}

func init() {
	lf := `{file_name, compression_method: (.compression_method|av), compression_method_sym: (.compression_method|sv), ` +
		`data_descriptor: .flags.data_descriptor, language_encoding: .flags.language_encoding, encrypted: .flags.encrypted, ` +
		`crc32_uncompressed: (.crc32_uncompressed|av), compressed_size, uncompressed_size, file_name_length, ` +
		`dos: (.last_modification | {year: (.year|sv), month, day, hour, minute, second: (.second|sv)}), `
	c15Register(&c15Format{
		name:  "zip",
		gen:   c15GenZip,
		genPy: c15GenZipPy,
		jq: `{local_files: [.local_files[]? | ` + lf +
			`extra_tags: [.extra_fields[]? | (.tag|av)], extra_mtime: ([.extra_fields[]? | select((.tag|av) == 21589) | (.modification_time|av)] | first // null), ` +
			`extra_custom: ([.extra_fields[]? | select((.tag|av) == 51966) | (.data|hx)] | first // null), ` +
			`uncompressed: (.uncompressed|hx), compressed_len: (if .compressed == null then null else (.compressed|tobytes|length) end), compressed: (.compressed|hx), ` +
			`data_indicator: (if .data_indicator == null then null else (.data_indicator | {has_signature: (.signature != null), crc32_uncompressed: (.crc32_uncompressed|av), compressed_size, uncompressed_size}) end)}], ` +
			`central_directories: [.central_directories[]? | ` + lf + `file_comment, relative_offset_of_local_file_header}], ` +
			`eocd: (.end_of_central_directory_record | {nr_of_central_directory_records, nr_of_central_directory_records_on_disk, comment, comment_length, size_of_central_directory, offset_of_start_of_central_directory})}`,
		cks:     `[(.local_files[]? | ((.crc32_uncompressed|ds), (.data_indicator.crc32_uncompressed? | ds))), (.central_directories[]? | (.crc32_uncompressed|ds))]`,
		compare: c15CmpZip,
		ref:     c15RefZip,
		pyCheck: true,
	})
}

func c15GenZip(c *c15Ctx, r *gen.Rand, small bool) *c15File {
	n := c15Members(r, small, 0)
	exp := &c15ZipExp{}
	opts := map[string]bool{}
	f := &c15File{format: "zip", writer: "go", members: n}
	var buf bytes.Buffer
	zw := zip.NewWriter(&buf)
	curLevel := flate.DefaultCompression
	zw.RegisterCompressor(zip.Deflate, func(w io.Writer) (io.WriteCloser, error) { return flate.NewWriter(w, curLevel) })
	used := map[string]bool{}
	for i := 0; i < n; i++ {
		m := &c15ZipMember{localOff: -1}
		var kind string
		for {
			m.name, kind = c15Name(r, i, true, true)
			if !used[m.name] {
				break
			}
		}
		used[m.name] = true
		opts["name:"+kind] = true
		m.payload, _ = c15Payload(r, small)
		opts["payload:"+c15PayloadClass(m.payload)] = true
		if !small && r.Intn(10) == 0 {
			m.dir = true
			m.name += "/"
			m.payload = nil
			opts["directory"] = true
		}
		if r.Intn(2) == 0 {
			m.method = zip.Deflate
			m.level = gen.Pick(r, []int{-2, -1, 0, 1, 2, 3, 4, 5, 6, 7, 8, 9})
			opts[fmt.Sprintf("deflate-level%d", m.level)] = true
		} else {
			m.method = zip.Store
			opts["store"] = true
		}
		if r.Intn(4) == 0 {
			m.comment = "file comment " + c15ASCII(r, r.Intn(20))
			if r.Intn(3) == 0 {
				m.comment += gen.Pick(r, c15Uni)
			}
			opts["file-comment"] = true
		}
		if r.Intn(2) == 0 {
			m.hasMod = true
			// even seconds: MS-DOS time has a 2 s resolution
			m.mod = time.Date(1981+r.Intn(60), time.Month(1+r.Intn(12)), 1+r.Intn(28), r.Intn(24), r.Intn(60), 2*r.Intn(30), 0, time.UTC)
			opts["modified"] = true
		}
		if r.Intn(5) == 0 {
			m.extra = r.Bytes(r.Intn(12))
			if m.extra == nil {
				m.extra = []byte{}
			}
			opts["extra-field"] = true
		}
		m.utf8 = !c15IsASCII(m.name) || !c15IsASCII(m.comment)
		m.crc = crc32.ChecksumIEEE(m.payload)
		fh := &zip.FileHeader{Name: m.name, Method: m.method, Comment: m.comment}
		if m.hasMod {
			fh.Modified = m.mod
		}
		if m.extra != nil {
			e := []byte{0xfe, 0xca, byte(len(m.extra)), 0}
			fh.Extra = append(e, m.extra...)
		}
		m.dd = !m.dir && r.Intn(2) == 0
		if m.dir {
			m.method = zip.Store
			fh.Method = zip.Store
		}
		curLevel = m.level
		if m.dd {
			opts["data-descriptor"] = true
			w, err := zw.CreateHeader(fh)
			if err != nil {
				panic(err)
			}
			if _, err := w.Write(m.payload); err != nil {
				panic(err)
			}
		} else {
			// sizes and crc in the local header: the entry is handed over already compressed
			var raw []byte
			if m.method == zip.Deflate {
				var cb bytes.Buffer
				fw, err := flate.NewWriter(&cb, m.level)
				if err != nil {
					panic(err)
				}
				fw.Write(m.payload)
				fw.Close()
				raw = cb.Bytes()
			} else {
				raw = m.payload
			}
			if m.hasMod {
				// CreateRaw writes the legacy MS-DOS fields as given (APPNOTE 4.4.6) and adds no timestamp extra field
				fh.ModifiedDate = uint16((m.mod.Year()-1980)<<9 | int(m.mod.Month())<<5 | m.mod.Day())
				fh.ModifiedTime = uint16(m.mod.Hour()<<11 | m.mod.Minute()<<5 | m.mod.Second()/2)
				fh.Modified = time.Time{}
			}
			fh.CRC32 = m.crc
			fh.CompressedSize64 = uint64(len(raw))
			fh.UncompressedSize64 = uint64(len(m.payload))
			if m.utf8 {
				fh.Flags |= 0x800 // CreateRaw writes the header as given
			}
			w, err := zw.CreateRaw(fh)
			if err != nil {
				panic(err)
			}
			if _, err := w.Write(raw); err != nil {
				panic(err)
			}
			if !m.dir {
				opts["no-data-descriptor"] = true
			}
		}
		f.payload += int64(len(m.payload))
		exp.members = append(exp.members, m)
	}
	if r.Intn(3) == 0 {
		exp.comment = "archive " + c15ASCII(r, r.Intn(30))
		zw.SetComment(exp.comment)
		opts["archive-comment"] = true
	}
	if err := zw.Close(); err != nil {
		panic(err)
	}
	f.data = buf.Bytes()
	f.exp = exp
	f.opts = c15Opts(opts)
	c15ZipFill(f, exp)
	return f
}

func c15IsASCII(s string) bool {
	for i := 0; i < len(s); i++ {
		if s[i] >= utf8.RuneSelf {
			return false
		}
	}
	return true
}

// c15ZipFill takes compressed sizes / raw bytes from the independent reader and maps the checksummed regions
// with a hand-written walk over the central directory (APPNOTE 4.3.12, 4.3.7).
func c15ZipFill(f *c15File, exp *c15ZipExp) {
	zr, err := zip.NewReader(bytes.NewReader(f.data), int64(len(f.data)))
	if err != nil {
		panic(err)
	}
	if len(zr.File) != len(exp.members) {
		panic("zip generator: member count")
	}
	for i, zf := range zr.File {
		m := exp.members[i]
		m.csize = int64(zf.CompressedSize64)
		rr, err := zf.OpenRaw()
		if err != nil {
			panic(err)
		}
		m.raw, _ = io.ReadAll(rr)
		off, err := zf.DataOffset()
		if err != nil {
			panic(err)
		}
		dataOff := int(off)
		if !m.dir {
			region := "deflated-member-data"
			uncond := false
			if m.method == zip.Store {
				region, uncond = "stored-member-data", true
			}
			if len(m.raw) > 0 {
				f.regions = append(f.regions, c15Region{name: region, off: dataOff, n: len(m.raw), uncond: uncond})
			}
			if m.dd {
				dd := dataOff + len(m.raw)
				if string(f.data[dd:dd+4]) == "PK\x07\x08" {
					dd += 4
				}
				f.regions = append(f.regions, c15Region{name: "descriptor-crc32", off: dd, n: 4})
			}
		}
	}
	// central directory walk: signature PK\1\2, crc at +16, name len +28, extra len +30, comment len +32, local offset +42
	eocd := bytes.LastIndex(f.data, []byte("PK\x05\x06"))
	cdOff := int(binary.LittleEndian.Uint32(f.data[eocd+16:]))
	p := cdOff
	for i := range exp.members {
		if string(f.data[p:p+4]) != "PK\x01\x02" {
			panic("zip generator: central directory walk")
		}
		m := exp.members[i]
		nl := int(binary.LittleEndian.Uint16(f.data[p+28:]))
		el := int(binary.LittleEndian.Uint16(f.data[p+30:]))
		cl := int(binary.LittleEndian.Uint16(f.data[p+32:]))
		m.localOff = int64(binary.LittleEndian.Uint32(f.data[p+42:]))
		if !m.dir {
			f.regions = append(f.regions, c15Region{name: "central-crc32", off: p + 16, n: 4})
			if !m.dd {
				// the local copy: readers go by the central directory, so this one obliges fq only if the reference objects
				f.regions = append(f.regions, c15Region{name: "local-crc32", off: int(m.localOff) + 14, n: 4})
			}
		}
		p += 46 + nl + el + cl
	}
}

func c15GenZipPy(c *c15Ctx, r *gen.Rand, small bool) *c15File {
	n := c15Members(r, small, 0)
	exp := &c15ZipExp{}
	opts := map[string]bool{}
	f := &c15File{format: "zip", writer: "py", members: n}
	stream := r.Intn(2) == 0
	if stream {
		opts["data-descriptor"] = true
	} else {
		opts["no-data-descriptor"] = true
	}
	specs := []any{}
	used := map[string]bool{}
	for i := 0; i < n; i++ {
		m := &c15ZipMember{localOff: -1, dd: stream}
		var kind string
		for {
			m.name, kind = c15Name(r, i, true, true)
			if !used[m.name] {
				break
			}
		}
		used[m.name] = true
		opts["name:"+kind] = true
		m.payload, _ = c15Payload(r, small)
		opts["payload:"+c15PayloadClass(m.payload)] = true
		spec := map[string]any{"name": m.name, "data": c15B64(m.payload)}
		if r.Intn(2) == 0 {
			m.method = 8
			m.level = r.Intn(10)
			spec["level"] = m.level
			opts[fmt.Sprintf("deflate-level%d", m.level)] = true
		} else {
			opts["store"] = true
		}
		spec["method"] = int(m.method)
		if r.Intn(4) == 0 {
			m.comment = "file comment " + c15ASCII(r, r.Intn(20))
			spec["comment"] = m.comment
			opts["file-comment"] = true
		}
		m.hasMod = true
		m.mod = time.Date(1981+r.Intn(60), time.Month(1+r.Intn(12)), 1+r.Intn(28), r.Intn(24), r.Intn(60), 2*r.Intn(30), 0, time.UTC)
		spec["date_time"] = []int{m.mod.Year(), int(m.mod.Month()), m.mod.Day(), m.mod.Hour(), m.mod.Minute(), m.mod.Second()}
		m.utf8 = !c15IsASCII(m.name)
		m.crc = crc32.ChecksumIEEE(m.payload)
		specs = append(specs, spec)
		f.payload += int64(len(m.payload))
		exp.members = append(exp.members, m)
	}
	spec := map[string]any{"members": specs, "stream": stream}
	if r.Intn(3) == 0 {
		exp.comment = "archive " + c15ASCII(r, r.Intn(30))
		spec["comment"] = exp.comment
		opts["archive-comment"] = true
	}
	data, info, err := c.py.write("zip", spec)
	if err != nil {
		panic(err)
	}
	// the writer's own bookkeeping (crc, sizes) must agree with what the harness stored
	infos, _ := info["members"].([]any)
	for i, m := range exp.members {
		mi := infos[i].(map[string]any)
		if uint32(mi["crc"].(float64)) != m.crc || int(mi["usize"].(float64)) != len(m.payload) {
			panic("python zip: writer info disagrees with the stored contents")
		}
	}
	f.data = data
	f.exp = exp
	f.opts = c15Opts(opts)
	c15ZipFill(f, exp)
	return f
}

func c15CmpZip(c *c15Ctx, f *c15File, got map[string]any) []c15Diff {
	exp := f.exp.(*c15ZipExp)
	var lfs, cds []any
	for _, m := range exp.members {
		methodSym := "none"
		if m.method == 8 {
			methodSym = "deflated"
		}
		common := func() map[string]any {
			e := map[string]any{
				"file_name":              m.name,
				"file_name_length":       len(m.name),
				"compression_method":     int(m.method),
				"compression_method_sym": methodSym,
				"data_descriptor":        m.dd,
				"language_encoding":      m.utf8,
				"encrypted":              false,
			}
			if m.hasMod {
				e["dos"] = map[string]any{"year": m.mod.Year(), "month": int(m.mod.Month()), "day": m.mod.Day(), "hour": m.mod.Hour(), "minute": m.mod.Minute(), "second": m.mod.Second()}
			}
			return e
		}
		l := common()
		if m.dd {
			l["crc32_uncompressed"], l["compressed_size"], l["uncompressed_size"] = 0, 0, 0
			l["data_indicator"] = map[string]any{"has_signature": true, "crc32_uncompressed": m.crc, "compressed_size": m.csize, "uncompressed_size": len(m.payload)}
		} else {
			l["crc32_uncompressed"], l["compressed_size"], l["uncompressed_size"] = m.crc, m.csize, len(m.payload)
			l["data_indicator"] = nil
		}
		l["uncompressed"] = c15Hex(m.payload)
		if m.method == 8 {
			l["compressed"] = c15Hex(m.raw)
		}
		if m.extra != nil {
			l["extra_custom"] = c15Hex(m.extra)
		}
		if m.hasMod && f.writer == "go" && m.dd {
			l["extra_mtime"] = m.mod.Unix() // archive/zip adds an extended-timestamp field for Modified
		}
		lfs = append(lfs, l)
		cd := common()
		cd["crc32_uncompressed"], cd["compressed_size"], cd["uncompressed_size"] = m.crc, m.csize, len(m.payload)
		cd["file_comment"] = m.comment
		cd["relative_offset_of_local_file_header"] = m.localOff
		cds = append(cds, cd)
	}
	e := map[string]any{
		"central_directories": cds,
		"eocd": map[string]any{"nr_of_central_directory_records": len(exp.members), "nr_of_central_directory_records_on_disk": len(exp.members),
			"comment": exp.comment, "comment_length": len(exp.comment)},
	}
	var diffs []c15Diff
	c15Cmp("zip", "", e, got, &diffs)
	gl, _ := got["local_files"].([]any)
	if len(gl) != len(lfs) {
		diffs = append(diffs, c15Diff{sig: "mismatch:zip:local_files:count", desc: fmt.Sprintf("zip local_files: stored %d entries, fq reports %d", len(lfs), len(gl))})
		return diffs
	}
	for j, m := range exp.members {
		var ds []c15Diff
		c15Cmp("zip", "local_files[]", lfs[j], gl[j], &ds)
		for _, d := range ds {
			d.desc = fmt.Sprintf("[entry %d] ", j) + d.desc
			if m.dd && m.method == 0 && len(m.payload) > 0 {
				// stored member whose sizes are only in the data descriptor / central directory: one distinct mechanism
				d.sig = "mismatch:zip:stored+data-descriptor:" + d.sig[len("mismatch:zip:"):]
			}
			diffs = append(diffs, d)
		}
	}
	return diffs
}

// c15RefZip: archive/zip opens the archive and reads every member to EOF (crc32 against the central directory,
// data descriptor against the central directory).
func c15RefZip(f *c15File, data []byte) error {
	zr, err := zip.NewReader(bytes.NewReader(data), int64(len(data)))
	if err != nil {
		return err
	}
	exp := f.exp.(*c15ZipExp)
	if len(zr.File) != len(exp.members) {
		return fmt.Errorf("%d members, stored %d", len(zr.File), len(exp.members))
	}
	for _, zf := range zr.File {
		rc, err := zf.Open()
		if err != nil {
			return err
		}
		_, err = io.Copy(io.Discard, rc)
		rc.Close()
		if err != nil {
			return err
		}
	}
	return nil
}
