package main

// C16 binary encoders, written from the specifications (independent of fq):
//   msgpack  https://github.com/msgpack/msgpack/blob/master/spec.md
//   cbor     RFC 8949
//   bson     https://bsonspec.org/spec.html
//   bencode  BEP 3
// Every node records the wire form that was chosen and its byte extent, so that a disagreement can be
// attributed to one type code / length form.

import (
	"encoding/binary"
	"fmt"
	"hash/fnv"
	"math"
	"math/big"
	"sort"
	"strconv"
	"unicode/utf8"

	"verif/gen"
)

type c16Node struct {
	path       string
	form       string
	start, end int
	v          *c16V
}

type c16Enc struct {
	format  string
	buf     []byte
	nodes   []c16Node
	r       *gen.Rand       // base stream: every choice forks it by (path, dimension), so that banning one form leaves the others alone
	ban     map[string]bool // forms replaced by the canonical alternative (diagnosis)
	canon   bool            // always choose the canonical (first) alternative
	exotic  bool            // may emit well-formed items outside the value domain (tags, non-string keys, ...)
	noValue bool            // something outside the value domain was emitted: representation not compared
	forms   map[string]int
}

func c16NewEnc(format string, r *gen.Rand) *c16Enc {
	return &c16Enc{format: format, r: r, forms: map[string]int{}}
}

func c16Hash(s string) uint64 {
	h := fnv.New64a()
	h.Write([]byte(s))
	return h.Sum64()
}

func (e *c16Enc) rng(path, dim string) *gen.Rand { return e.r.Fork(c16Hash(path + "\x00" + dim)) }

// pick chooses one wire form; opts[0] is the canonical (shortest / preferred) one.
func (e *c16Enc) pick(path, dim string, opts ...string) string {
	c := opts[0]
	if !e.canon && len(opts) > 1 {
		rr := e.rng(path, dim)
		if rr.Intn(10) >= 3 {
			c = opts[rr.Intn(len(opts))]
		}
		if e.ban[c] {
			c = opts[0]
		}
	}
	return c
}

// chance decides an optional excursion outside the value domain; name is its (bannable) form name.
func (e *c16Enc) chance(path, name string, num, den int) bool {
	if e.canon || e.ban["x:"+name] {
		return false
	}
	if e.rng(path, name).Intn(den) < num {
		e.forms["x:"+name]++
		return true
	}
	return false
}

func (e *c16Enc) begin(path string, v *c16V) int {
	e.nodes = append(e.nodes, c16Node{path: path, start: len(e.buf), v: v})
	return len(e.nodes) - 1
}
func (e *c16Enc) end(i int, form string) {
	e.nodes[i].form = form
	e.nodes[i].end = len(e.buf)
	e.forms[form]++
}

func (e *c16Enc) b(bs ...byte) { e.buf = append(e.buf, bs...) }
func (e *c16Enc) be(n int, x uint64) {
	var t [8]byte
	binary.BigEndian.PutUint64(t[:], x)
	e.buf = append(e.buf, t[8-n:]...)
}
func (e *c16Enc) le(n int, x uint64) {
	var t [8]byte
	binary.LittleEndian.PutUint64(t[:], x)
	e.buf = append(e.buf, t[:n]...)
}

// nodeAt: deepest node strictly containing byte offset k (start < k < end), the root for k == 0.
func (e *c16Enc) nodeAt(k int) *c16Node {
	best := &e.nodes[0]
	for i := range e.nodes {
		n := &e.nodes[i]
		if n.start < k && k < n.end && (n.end-n.start) <= (best.end-best.start) {
			best = n
		}
	}
	return best
}

func (e *c16Enc) formSet() string {
	ks := make([]string, 0, len(e.forms))
	for k := range e.forms {
		ks = append(ks, k)
	}
	sort.Strings(ks)
	return fmt.Sprint(ks)
}

func c16FitsU(x *big.Int, bits uint) bool {
	return x.Sign() >= 0 && x.BitLen() <= int(bits)
}
func c16FitsS(x *big.Int, bits uint) bool {
	lo := new(big.Int).Neg(new(big.Int).Lsh(big.NewInt(1), bits-1))
	hi := new(big.Int).Sub(new(big.Int).Lsh(big.NewInt(1), bits-1), big.NewInt(1))
	return x.Cmp(lo) >= 0 && x.Cmp(hi) <= 0
}

// ------------------------------------------------------------------ msgpack

func (e *c16Enc) msgpack(v *c16V, path string) {
	ni := e.begin(path, v)
	var form string
	switch v.K {
	case c16KNull:
		form = "nil"
		e.b(0xc0)
	case c16KBool:
		if v.B {
			form = "true"
			e.b(0xc3)
		} else {
			form = "false"
			e.b(0xc2)
		}
	case c16KInt:
		x := v.I
		var opts []string
		if c16FitsU(x, 7) {
			opts = append(opts, "positive_fixint")
		}
		if x.Sign() < 0 && x.Cmp(big.NewInt(-32)) >= 0 {
			opts = append(opts, "negative_fixint")
		}
		// spec: "uint 8 stores a 8-bit unsigned integer", "int 8 stores a 8-bit signed integer" ...: any that holds the value
		us := []string{"uint8", "uint16", "uint32", "uint64"}
		ss := []string{"int8", "int16", "int32", "int64"}
		bits := []uint{8, 16, 32, 64}
		first, second := us, ss
		if x.Sign() < 0 {
			first, second = ss, us
		}
		for _, set := range [][]string{first, second} {
			for i, name := range set {
				if (name[0] == 'u' && c16FitsU(x, bits[i])) || (name[0] == 'i' && c16FitsS(x, bits[i])) {
					opts = append(opts, name)
				}
			}
		}
		form = e.pick(path, "int", opts...)
		var raw uint64
		if x.Sign() >= 0 {
			raw = x.Uint64()
		} else {
			raw = uint64(x.Int64())
		}
		switch form {
		case "positive_fixint":
			e.b(byte(raw))
		case "negative_fixint":
			e.b(byte(raw)) // 111YYYYY is the two's complement byte itself
		case "uint8":
			e.b(0xcc)
			e.be(1, raw)
		case "uint16":
			e.b(0xcd)
			e.be(2, raw)
		case "uint32":
			e.b(0xce)
			e.be(4, raw)
		case "uint64":
			e.b(0xcf)
			e.be(8, raw)
		case "int8":
			e.b(0xd0)
			e.be(1, raw)
		case "int16":
			e.b(0xd1)
			e.be(2, raw)
		case "int32":
			e.b(0xd2)
			e.be(4, raw)
		case "int64":
			e.b(0xd3)
			e.be(8, raw)
		}
	case c16KFloat:
		opts := []string{"float64"}
		if math.IsNaN(v.F) || float64(float32(v.F)) == v.F {
			opts = append(opts, "float32")
		}
		form = e.pick(path, "float", opts...)
		if form == "float32" {
			e.b(0xca)
			e.be(4, uint64(math.Float32bits(float32(v.F))))
		} else {
			e.b(0xcb)
			e.be(8, math.Float64bits(v.F))
		}
	case c16KStr:
		n := len(v.S)
		var opts []string
		if n <= 31 {
			opts = append(opts, "fixstr")
		}
		if n <= 0xff {
			opts = append(opts, "str8")
		}
		if n <= 0xffff {
			opts = append(opts, "str16")
		}
		opts = append(opts, "str32")
		form = e.pick(path, "str", opts...)
		switch form {
		case "fixstr":
			e.b(0xa0 | byte(n))
		case "str8":
			e.b(0xd9, byte(n))
		case "str16":
			e.b(0xda)
			e.be(2, uint64(n))
		case "str32":
			e.b(0xdb)
			e.be(4, uint64(n))
		}
		e.b([]byte(v.S)...)
	case c16KBytes:
		n := len(v.By)
		var opts []string
		if n <= 0xff {
			opts = append(opts, "bin8")
		}
		if n <= 0xffff {
			opts = append(opts, "bin16")
		}
		opts = append(opts, "bin32")
		form = e.pick(path, "bin", opts...)
		switch form {
		case "bin8":
			e.b(0xc4, byte(n))
		case "bin16":
			e.b(0xc5)
			e.be(2, uint64(n))
		case "bin32":
			e.b(0xc6)
			e.be(4, uint64(n))
		}
		e.b(v.By...)
	case c16KExt:
		n := len(v.By)
		var opts []string
		switch n {
		case 1, 2, 4, 8, 16:
			opts = append(opts, fmt.Sprintf("fixext%d", n))
		}
		if n <= 0xff {
			opts = append(opts, "ext8")
		}
		if n <= 0xffff {
			opts = append(opts, "ext16")
		}
		opts = append(opts, "ext32")
		form = e.pick(path, "ext", opts...)
		switch form {
		case "fixext1":
			e.b(0xd4)
		case "fixext2":
			e.b(0xd5)
		case "fixext4":
			e.b(0xd6)
		case "fixext8":
			e.b(0xd7)
		case "fixext16":
			e.b(0xd8)
		case "ext8":
			e.b(0xc7, byte(n))
		case "ext16":
			e.b(0xc8)
			e.be(2, uint64(n))
		case "ext32":
			e.b(0xc9)
			e.be(4, uint64(n))
		}
		e.b(byte(v.Ext))
		e.b(v.By...)
	case c16KArr, c16KMap:
		n := len(v.A)
		fix, s16, s32 := "fixarray", "array16", "array32"
		if v.K == c16KMap {
			fix, s16, s32 = "fixmap", "map16", "map32"
		}
		var opts []string
		if n <= 15 {
			opts = append(opts, fix)
		}
		if n <= 0xffff {
			opts = append(opts, s16)
		}
		opts = append(opts, s32)
		form = e.pick(path, "len", opts...)
		base := byte(0x90)
		if v.K == c16KMap {
			base = 0x80
		}
		switch form {
		case fix:
			e.b(base | byte(n))
		case s16:
			if v.K == c16KMap {
				e.b(0xde)
			} else {
				e.b(0xdc)
			}
			e.be(2, uint64(n))
		case s32:
			if v.K == c16KMap {
				e.b(0xdf)
			} else {
				e.b(0xdd)
			}
			e.be(4, uint64(n))
		}
		for i := range v.A {
			c, name := v.child(i)
			cp := path + "/" + name
			if v.K == c16KMap {
				if e.exotic && e.chance(cp, "nonstrkey", 1, 3) {
					// any msgpack object may be a key: outside the JSON-like value domain
					e.noValue = true
					e.forms["key:non-string"]++
					switch e.rng(cp, "keykind").Intn(4) {
					case 0:
						e.b(0xcd)
						e.be(2, uint64(1000+i))
					case 1:
						e.b(0x92, byte(i&0x7f), 0xc0)
					case 2:
						e.b(0xc4, 2, 0xff, byte(i))
					default:
						e.b(0xcb)
						e.be(8, math.Float64bits(float64(i)+0.5))
					}
				} else {
					e.msgpack(&c16V{K: c16KStr, S: v.Keys[i]}, cp+"\x00key")
				}
			}
			e.msgpack(c, cp)
		}
	default:
		panic("msgpack: kind")
	}
	e.end(ni, form)
}

// ------------------------------------------------------------------ cbor

var c16CBORLenForms = []string{"imm", "8bit", "16bit", "32bit", "64bit"}

// cborHead writes major type + argument n using a chosen length form (RFC 8949 section 3).
func (e *c16Enc) cborHead(path, dim string, mt byte, name string, n uint64) string {
	var opts []string
	if n < 24 {
		opts = append(opts, name+"/imm")
	}
	if n <= 0xff {
		opts = append(opts, name+"/8bit")
	}
	if n <= 0xffff {
		opts = append(opts, name+"/16bit")
	}
	if n <= 0xffffffff {
		opts = append(opts, name+"/32bit")
	}
	opts = append(opts, name+"/64bit")
	form := e.pick(path, dim, opts...)
	switch form[len(name)+1:] {
	case "imm":
		e.b(mt<<5 | byte(n))
	case "8bit":
		e.b(mt<<5|24, byte(n))
	case "16bit":
		e.b(mt<<5 | 25)
		e.be(2, n)
	case "32bit":
		e.b(mt<<5 | 26)
		e.be(4, n)
	case "64bit":
		e.b(mt<<5 | 27)
		e.be(8, n)
	}
	return form
}

// c16SplitUTF8 cuts s into chunks at rune boundaries (each chunk of an indefinite text string must be valid UTF-8).
func c16Split(r *gen.Rand, s []byte, text bool) [][]byte {
	var out [][]byte
	if len(s) == 0 {
		if r.Bool() {
			out = append(out, nil) // one empty chunk; otherwise no chunk at all
		}
		return out
	}
	for len(s) > 0 {
		n := 1 + r.Intn(len(s))
		if r.Intn(4) == 0 {
			n = 0 // empty chunk in the middle
		}
		if text {
			for n < len(s) && !utf8.RuneStart(s[n]) {
				n++
			}
		}
		out = append(out, s[:n])
		s = s[n:]
		if len(out) > 6 {
			out = append(out, s)
			break
		}
	}
	return out
}

func (e *c16Enc) cbor(v *c16V, path string) {
	if e.exotic && e.chance(path, "tag", 1, 6) {
		// tagged item (major type 6): no JSON-like representation
		e.noValue = true
		rr := e.rng(path, "tagnum")
		tag := gen.Pick(rr, []uint64{0, 1, 4, 5, 21, 23, 24, 32, 100, 255, 256, 55799, 65535, 65536, 1 << 32, math.MaxUint64})
		e.forms[e.cborHead(path, "taghead", 6, "tag", tag)]++
	}
	ni := e.begin(path, v)
	var form string
	switch v.K {
	case c16KNull:
		form = "null"
		e.b(0xf6)
		if e.exotic {
			// simple values without a JSON-like counterpart
			if k := e.pick(path, "simple", "null", "undefined", "simple/imm", "simple/8bit"); k != "null" {
				e.noValue = true
				e.buf = e.buf[:len(e.buf)-1]
				rr := e.rng(path, "simplev")
				form = k
				switch k {
				case "undefined":
					e.b(0xf7)
				case "simple/imm":
					e.b(0xe0 | byte(rr.Intn(20)))
				default:
					e.b(0xf8, byte(32+rr.Intn(224)))
				}
			}
		}
	case c16KBool:
		if v.B {
			form = "true"
			e.b(0xf5)
		} else {
			form = "false"
			e.b(0xf4)
		}
	case c16KInt:
		if e.exotic && e.pick(path, "bignum", "int", "bignum") == "bignum" {
			// RFC 8949 3.4.3: tag 2 / 3 with a byte string
			e.noValue = true
			form = "bignum"
			x := v.I
			if x.Sign() >= 0 {
				e.b(0xc2)
			} else {
				e.b(0xc3)
				x = new(big.Int).Sub(new(big.Int).Neg(x), big.NewInt(1))
			}
			raw := x.Bytes()
			e.cborHead(path, "bignumlen", 2, "bytes", uint64(len(raw)))
			e.b(raw...)
			break
		}
		if v.I.Sign() >= 0 {
			form = e.cborHead(path, "int", 0, "uint", v.I.Uint64())
		} else {
			// major type 1 encodes -1-n
			n := new(big.Int).Sub(new(big.Int).Neg(v.I), big.NewInt(1))
			form = e.cborHead(path, "int", 1, "nint", n.Uint64())
		}
	case c16KFloat:
		opts := []string{"float64"}
		if math.IsNaN(v.F) || float64(float32(v.F)) == v.F {
			opts = append(opts, "float32")
		}
		hb, hok := c16HalfBits(v.F)
		if hok {
			opts = append(opts, "float16")
		}
		form = e.pick(path, "float", opts...)
		switch form {
		case "float16":
			e.b(0xf9)
			e.be(2, uint64(hb))
		case "float32":
			e.b(0xfa)
			e.be(4, uint64(math.Float32bits(float32(v.F))))
		default:
			e.b(0xfb)
			e.be(8, math.Float64bits(v.F))
		}
	case c16KStr, c16KBytes:
		mt, name, data := byte(3), "text", []byte(v.S)
		if v.K == c16KBytes {
			mt, name, data = 2, "bytes", v.By
		}
		if e.pick(path, "definite", name+"/definite", name+"/indefinite") == name+"/indefinite" {
			form = name + "/indefinite"
			e.b(mt<<5 | 31)
			for i, ch := range c16Split(e.rng(path, "chunks"), data, mt == 3) {
				e.forms[e.cborHead(fmt.Sprintf("%s\x00chunk%d", path, i), "len", mt, name, uint64(len(ch)))]++
				e.b(ch...)
			}
			e.b(0xff)
		} else {
			form = e.cborHead(path, "len", mt, name, uint64(len(data)))
			e.b(data...)
		}
	case c16KArr, c16KMap:
		mt, name := byte(4), "array"
		if v.K == c16KMap {
			mt, name = 5, "map"
		}
		indef := e.pick(path, "definite", name+"/definite", name+"/indefinite") == name+"/indefinite"
		if indef {
			form = name + "/indefinite"
			e.b(mt<<5 | 31)
		} else {
			form = e.cborHead(path, "len", mt, name, uint64(len(v.A)))
		}
		for i := range v.A {
			c, cn := v.child(i)
			cp := path + "/" + cn
			if v.K == c16KMap {
				if e.exotic && e.chance(cp, "nonstrkey", 1, 3) {
					e.noValue = true
					e.forms["key:non-string"]++
					switch e.rng(cp, "keykind").Intn(4) {
					case 0:
						e.b(0x19)
						e.be(2, uint64(1000+i))
					case 1:
						e.b(0x82, byte(i%24), 0xf6)
					case 2:
						e.b(0x42, 0xff, byte(i))
					default:
						e.b(0x39)
						e.be(2, uint64(i))
					}
				} else {
					e.cbor(&c16V{K: c16KStr, S: v.Keys[i]}, cp+"\x00key")
				}
			}
			e.cbor(c, cp)
		}
		if indef {
			e.b(0xff)
		}
	default:
		panic("cbor: kind")
	}
	e.end(ni, form)
}

// ------------------------------------------------------------------ bson

func (e *c16Enc) bsonCString(s string) {
	e.b([]byte(s)...)
	e.b(0)
}

// bsonDoc writes document ::= int32 e_list "\x00"
func (e *c16Enc) bsonDoc(v *c16V, path string) {
	ni := e.begin(path, v)
	start := len(e.buf)
	e.le(4, 0)
	for i := range v.A {
		c, idx := v.child(i)
		name := idx // array: the keys are the decimal indexes
		if v.K == c16KMap {
			name = v.Keys[i]
		}
		e.bsonElem(c, name, path+"/"+idx)
	}
	e.b(0)
	binary.LittleEndian.PutUint32(e.buf[start:], uint32(len(e.buf)-start))
	form := "document"
	if v.K == c16KArr {
		form = "array"
	}
	e.end(ni, form)
}

func (e *c16Enc) bsonElem(v *c16V, name, path string) {
	if v.K == c16KArr || v.K == c16KMap {
		if v.K == c16KArr {
			e.b(0x04)
		} else {
			e.b(0x03)
		}
		e.bsonCString(name)
		e.bsonDoc(v, path)
		return
	}
	ni := e.begin(path, v)
	var form string
	switch v.K {
	case c16KNull:
		form = "null"
		if e.exotic {
			// element types without a JSON-like value
			k := e.pick(path, "exotic", "null", "undefined", "object_id", "regexp", "javascript", "decimal128", "minkey", "maxkey")
			if k != "null" {
				e.noValue = true
				form = k
				rr := e.rng(path, "exotickind")
				switch k {
				case "undefined":
					e.b(0x06)
					e.bsonCString(name)
				case "object_id":
					e.b(0x07)
					e.bsonCString(name)
					e.b(rr.Bytes(12)...)
				case "regexp":
					e.b(0x0b)
					e.bsonCString(name)
					e.bsonCString("^a.*b$")
					e.bsonCString("im")
				case "javascript":
					e.b(0x0d)
					e.bsonCString(name)
					code := "function(){return 1}"
					e.le(4, uint64(len(code)+1))
					e.bsonCString(code)
				case "decimal128":
					e.b(0x13)
					e.bsonCString(name)
					e.b(rr.Bytes(16)...)
				case "minkey":
					e.b(0xff)
					e.bsonCString(name)
				default:
					e.b(0x7f)
					e.bsonCString(name)
				}
				break
			}
		}
		e.b(0x0a)
		e.bsonCString(name)
	case c16KBool:
		form = "boolean"
		e.b(0x08)
		e.bsonCString(name)
		if v.B {
			e.b(1)
		} else {
			e.b(0)
		}
	case c16KInt:
		var opts []string
		if c16FitsS(v.I, 32) {
			opts = append(opts, "int32")
		}
		if c16FitsS(v.I, 64) {
			opts = append(opts, "int64", "datetime") // datetime: int64 UTC milliseconds
		}
		if c16FitsU(v.I, 64) {
			opts = append(opts, "timestamp") // uint64
		}
		form = e.pick(path, "int", opts...)
		var raw uint64
		if v.I.Sign() >= 0 {
			raw = v.I.Uint64()
		} else {
			raw = uint64(v.I.Int64())
		}
		switch form {
		case "int32":
			e.b(0x10)
			e.bsonCString(name)
			e.le(4, raw)
		case "int64":
			e.b(0x12)
			e.bsonCString(name)
			e.le(8, raw)
		case "datetime":
			e.b(0x09)
			e.bsonCString(name)
			e.le(8, raw)
		case "timestamp":
			e.b(0x11)
			e.bsonCString(name)
			e.le(8, raw)
		}
	case c16KFloat:
		form = "double"
		e.b(0x01)
		e.bsonCString(name)
		e.le(8, math.Float64bits(v.F))
	case c16KStr:
		// string ::= int32 (byte*) "\x00", the int32 counts the bytes plus the terminator
		form = "string"
		e.b(0x02)
		e.bsonCString(name)
		e.le(4, uint64(len(v.S)+1))
		e.b([]byte(v.S)...)
		e.b(0)
	case c16KBytes:
		// binary ::= int32 subtype (byte*)
		form = "binary"
		e.b(0x05)
		e.bsonCString(name)
		e.le(4, uint64(len(v.By)))
		sub := byte(0)
		if st := e.pick(path, "subtype", "subtype/0", "subtype/1", "subtype/4", "subtype/5", "subtype/6", "subtype/128", "subtype/255"); st != "subtype/0" {
			e.forms[st]++
			fmt.Sscan(st[8:], &sub)
		}
		e.b(sub)
		e.b(v.By...)
	default:
		panic("bson: kind")
	}
	e.end(ni, form)
}

// ------------------------------------------------------------------ bencode

func (e *c16Enc) bencode(v *c16V, path string) {
	ni := e.begin(path, v)
	var form string
	switch v.K {
	case c16KInt:
		form = "integer"
		e.b('i')
		e.b([]byte(v.I.String())...)
		e.b('e')
	case c16KStr, c16KBytes:
		form = "string"
		data := v.By
		if v.K == c16KStr {
			data = []byte(v.S)
		}
		e.b([]byte(strconv.Itoa(len(data)))...)
		e.b(':')
		e.b(data...)
	case c16KArr:
		form = "list"
		e.b('l')
		for i := range v.A {
			c, n := v.child(i)
			e.bencode(c, path+"/"+n)
		}
		e.b('e')
	case c16KMap:
		// keys are byte strings and appear in sorted (raw byte) order
		form = "dictionary"
		idx := make([]int, len(v.A))
		for i := range idx {
			idx[i] = i
		}
		sort.Slice(idx, func(a, b int) bool { return v.Keys[idx[a]] < v.Keys[idx[b]] })
		e.b('d')
		for _, i := range idx {
			c, n := v.child(i)
			e.bencode(&c16V{K: c16KStr, S: v.Keys[i]}, path+"/"+n+"\x00key")
			e.bencode(c, path+"/"+n)
		}
		e.b('e')
	default:
		panic("bencode: kind")
	}
	e.end(ni, form)
}
