package main

// C16 text formats: json, jsonl, yaml, toml, xml, csv. Documents are produced by the Go standard library
// encoders (and yaml.v3 / BurntSushi toml encoders) or by small hand-written emitters that follow the
// format specifications; the expected value is the source value itself.

import (
	"bytes"
	"encoding/csv"
	"encoding/json"
	"encoding/xml"
	"fmt"
	"math"
	"math/big"
	"strconv"
	"strings"
	"unicode"
	"unicode/utf8"

	"github.com/BurntSushi/toml"
	"gopkg.in/yaml.v3"

	"verif/gen"
)

type c16Text struct {
	format   string
	variant  string
	doc      []byte
	exp      any
	opts     map[string]any // decode options (xml array mode)
	prefixes bool           // every strict prefix of doc must be a decode error
	trailers [][]byte       // doc+trailer must be a decode error
	benign   [][]byte       // doc+benign must decode to the same value
	shape    string
	class    string // special document class that gets its own signature component
	// names for trailers whose kind is not obvious from their text
	trailerLabels map[string]string
}

// ---- JSON-like emitter (json, jsonl lines, yaml flow style) ----

type c16JOpts struct {
	indent   bool
	ascii    bool // every non-ASCII character as \uXXXX (json: surrogate pairs; yaml: \UXXXXXXXX)
	expNum   bool // exponent / fraction spellings of numbers
	ws       bool // random insignificant whitespace
	yaml     bool // YAML 1.2 flow style (a superset of JSON): .inf/.nan, printable-only raw characters
	htmlSafe bool // encoding/json's default escaping of <>&
}

func c16JSONString(sb *bytes.Buffer, s string, o *c16JOpts) {
	if !o.ascii && !o.yaml {
		var b bytes.Buffer
		enc := json.NewEncoder(&b)
		enc.SetEscapeHTML(o.htmlSafe)
		if err := enc.Encode(s); err != nil {
			panic(err)
		}
		sb.Write(bytes.TrimRight(b.Bytes(), "\n"))
		return
	}
	sb.WriteByte('"')
	for _, r := range s {
		switch {
		case r == '"' || r == '\\':
			sb.WriteByte('\\')
			sb.WriteRune(r)
		case r == '\n':
			sb.WriteString(`\n`)
		case r == '\t':
			sb.WriteString(`\t`)
		case r == '\r':
			sb.WriteString(`\r`)
		case r >= 0x20 && r < 0x7f:
			sb.WriteRune(r)
		case !o.ascii && r >= 0xa0 && unicode.IsPrint(r) && r != 0xfeff:
			sb.WriteRune(r)
		case r < 0x10000:
			fmt.Fprintf(sb, `\u%04x`, r)
		case o.yaml:
			fmt.Fprintf(sb, `\U%08X`, r)
		default:
			r -= 0x10000
			fmt.Fprintf(sb, `\u%04x\u%04x`, 0xd800+(r>>10), 0xdc00+(r&0x3ff))
		}
	}
	sb.WriteByte('"')
}

func c16JSONNumber(v *c16V, o *c16JOpts, r *gen.Rand) string {
	if v.K == c16KInt {
		s := v.I.String()
		// fraction / exponent spellings make the number a double for every JSON implementation:
		// only integers a double holds exactly are spelled that way (oracle correction)
		if o.expNum && !o.yaml && v.I.BitLen() <= 53 {
			switch r.Intn(4) {
			case 0:
				return s + ".0"
			case 1:
				// strip trailing zeros into an exponent
				t := strings.TrimRight(s, "0")
				if t != "" && t != "-" && len(t) < len(s) {
					return fmt.Sprintf("%s%s%d", t, gen.Pick(r, []string{"e", "E", "e+", "E+"}), len(s)-len(t))
				}
			case 2:
				return s + "e0"
			}
		}
		return s
	}
	f := v.F
	if o.yaml {
		switch {
		case math.IsInf(f, 1):
			return gen.Pick(r, []string{".inf", ".Inf", "+.inf", ".INF"})
		case math.IsInf(f, -1):
			return gen.Pick(r, []string{"-.inf", "-.Inf", "-.INF"})
		case math.IsNaN(f):
			return gen.Pick(r, []string{".nan", ".NaN", ".NAN"})
		}
	}
	format := byte('g')
	if o.expNum {
		format = gen.Pick(r, []byte{'g', 'e', 'E', 'G'})
	}
	return strconv.FormatFloat(f, format, -1, 64)
}

func c16EmitJSON(sb *bytes.Buffer, v *c16V, o *c16JOpts, r *gen.Rand, level int) {
	ws := func() {
		if o.ws {
			for i := r.Intn(3); i > 0; i-- {
				sb.WriteByte(gen.Pick(r, []byte{' ', ' ', '\n', '\t', '\r'}))
			}
		}
	}
	nl := func(l int) {
		if o.indent {
			sb.WriteByte('\n')
			for i := 0; i < l; i++ {
				sb.WriteString("  ")
			}
		}
	}
	switch v.K {
	case c16KNull:
		sb.WriteString("null")
	case c16KBool:
		fmt.Fprint(sb, v.B)
	case c16KInt, c16KFloat:
		sb.WriteString(c16JSONNumber(v, o, r))
	case c16KStr:
		c16JSONString(sb, v.S, o)
	case c16KArr:
		sb.WriteByte('[')
		for i, c := range v.A {
			if i > 0 {
				sb.WriteByte(',')
			}
			nl(level + 1)
			ws()
			c16EmitJSON(sb, c, o, r, level+1)
			ws()
		}
		if len(v.A) > 0 {
			nl(level)
		} else {
			ws()
		}
		sb.WriteByte(']')
	case c16KMap:
		sb.WriteByte('{')
		for i, c := range v.A {
			if i > 0 {
				sb.WriteByte(',')
			}
			nl(level + 1)
			ws()
			c16JSONString(sb, v.Keys[i], o)
			ws()
			sb.WriteByte(':')
			if o.indent || o.yaml {
				sb.WriteByte(' ')
			}
			ws()
			c16EmitJSON(sb, c, o, r, level+1)
			ws()
		}
		if len(v.A) > 0 {
			nl(level)
		} else {
			ws()
		}
		sb.WriteByte('}')
	default:
		panic("json: kind")
	}
}

func c16JSONVariant(r *gen.Rand) (string, *c16JOpts) {
	switch r.Intn(6) {
	case 0:
		return "compact", &c16JOpts{}
	case 1:
		return "indent", &c16JOpts{indent: true, htmlSafe: true}
	case 2:
		return "ascii-escapes", &c16JOpts{ascii: true}
	case 3:
		return "number-spellings", &c16JOpts{expNum: true}
	case 4:
		return "whitespace", &c16JOpts{ws: true}
	default:
		return "mixed", &c16JOpts{ws: r.Bool(), expNum: r.Bool(), ascii: r.Bool(), indent: r.Bool()}
	}
}

// c16ToGo converts to plain Go values for the library encoders (ints as int64/uint64).
func c16ToGo(v *c16V) any {
	switch v.K {
	case c16KNull:
		return nil
	case c16KBool:
		return v.B
	case c16KInt:
		if v.I.IsInt64() {
			return v.I.Int64()
		}
		if v.I.IsUint64() {
			return v.I.Uint64()
		}
		return new(big.Int).Set(v.I)
	case c16KFloat:
		return v.F
	case c16KStr:
		return v.S
	case c16KArr:
		a := make([]any, len(v.A))
		for i, c := range v.A {
			a[i] = c16ToGo(c)
		}
		return a
	case c16KMap:
		m := make(map[string]any, len(v.A))
		for i, c := range v.A {
			m[v.Keys[i]] = c16ToGo(c)
		}
		return m
	}
	panic("togo: kind")
}

var c16DomJSON = &c16Dom{null: true, boolean: true, float: true, str: true, arr: true, maps: true,
	intMin: c16Big("-1208925819614629174706176"), intMax: c16Big("1208925819614629174706176")}

func c16JSONCase(r *gen.Rand, depth int) *c16Text {
	d := *c16DomJSON
	container := r.Intn(3) > 0
	if container {
		d.top = 1
	}
	v := c16Gen(r, &d, depth, true)
	name, o := c16JSONVariant(r)
	var sb bytes.Buffer
	if o.ws {
		sb.WriteString(gen.Pick(r, []string{"", " ", "\n", "\t \r\n"}))
	}
	c16EmitJSON(&sb, v, o, r, 0)
	t := &c16Text{format: "json", variant: name, doc: sb.Bytes(), exp: v.repr(), shape: v.shape(4)}
	// a container document is complete only at its closing bracket: every strict prefix is malformed
	t.prefixes = container
	t.trailers = [][]byte{[]byte(" x"), []byte("[]"), []byte(","), []byte("\n1"), []byte("}"), []byte("\x00"), []byte(" null"), []byte("\n{\"a\":1}\n")}
	t.benign = [][]byte{[]byte("\n"), []byte(" \t\r\n ")}
	return t
}

func c16JSONLCase(r *gen.Rand, depth int) *c16Text {
	d := *c16DomJSON
	d.top = 3
	v := c16Gen(r, &d, depth, true)
	var sb bytes.Buffer
	sep := gen.Pick(r, []string{"\n", "\n", "\r\n", "\n\n"})
	name := "lines"
	if sep != "\n" {
		name = "lines/" + strconv.Quote(sep)
	}
	for i, c := range v.A {
		_, o := c16JSONVariant(r)
		o.indent, o.ws = false, false // one value per line
		c16EmitJSON(&sb, c, o, r, 0)
		if i < len(v.A)-1 || r.Intn(4) > 0 {
			sb.WriteString(sep)
		}
	}
	return &c16Text{format: "jsonl", variant: name, doc: sb.Bytes(), exp: v.repr(), shape: v.shape(4)}
}

// ---- YAML ----

var c16DomYAML = &c16Dom{null: true, boolean: true, float: true, nanInf: true, str: true, arr: true, maps: true,
	intMin: c16MinInt64, intMax: c16MaxUint64, top: 1}

func c16YAMLCase(r *gen.Rand, depth int) *c16Text {
	v := c16Gen(r, c16DomYAML, depth, true)
	t := &c16Text{format: "yaml", exp: v.repr(), shape: v.shape(4)}
	switch r.Intn(4) {
	case 0, 1:
		return c16YAMLFlow(r, v, t)
	default:
		if c16HasKey(v, "<<") {
			// yaml.v3's encoder writes the key "<<" unquoted, which is a merge key for every YAML 1.1 reader
			// (oracle correction: such documents do not denote the source value); use the hand-written emitter
			return c16YAMLFlow(r, v, t)
		}
		t.variant = "yaml.v3-block"
		var sb bytes.Buffer
		enc := yaml.NewEncoder(&sb)
		if r.Bool() {
			enc.SetIndent(2)
			t.variant = "yaml.v3-block/indent2"
		}
		if err := enc.Encode(c16ToGo(v)); err != nil {
			panic(err)
		}
		enc.Close()
		t.doc = sb.Bytes()
		t.trailers = [][]byte{[]byte("---\n- 1\n"), []byte("--- {a: 1}\n")}
		// the same library sits on both sides here: a document that yaml.v3 itself does not read back (block scalars
		// with leading line breaks get a wrong indentation indicator, ...) cannot be blamed on fq and does not
		// denote the source value with any certainty. Those values go through the hand-written emitter instead.
		var back any
		if err := yaml.Unmarshal(t.doc, &back); err != nil {
			return c16YAMLFlow(r, v, t)
		} else if _, _, ok := c16Diff(t.exp, c16NormYAML(back), false, ""); !ok {
			return c16YAMLFlow(r, v, t)
		}
	}
	t.benign = [][]byte{[]byte("\n"), []byte("# comment\n"), []byte("...\n")}
	return t
}

// c16YAMLFlow: YAML 1.2 flow style, hand-written (JSON is a subset of it).
func c16YAMLFlow(r *gen.Rand, v *c16V, t *c16Text) *c16Text {
	t.variant = "flow"
	o := &c16JOpts{yaml: true, indent: r.Bool(), ascii: r.Intn(3) == 0}
	var sb bytes.Buffer
	if r.Intn(4) == 0 {
		sb.WriteString("---\n")
		t.variant = "flow/doc-marker"
	}
	c16EmitJSON(&sb, v, o, r, 0)
	sb.WriteByte('\n')
	t.doc = sb.Bytes()
	t.trailers = [][]byte{[]byte("---\n[1]\n"), []byte("--- {a: 1}\n"), []byte("]\n")}
	t.benign = [][]byte{[]byte("\n"), []byte("# comment\n"), []byte("...\n")}
	return t
}

func c16HasKey(v *c16V, key string) bool {
	for _, k := range v.Keys {
		if k == key {
			return true
		}
	}
	for _, c := range v.A {
		if c16HasKey(c, key) {
			return true
		}
	}
	return false
}

func c16NormYAML(v any) any {
	switch x := v.(type) {
	case int64:
		return int(x)
	case uint64:
		if x <= math.MaxInt64 {
			return int(x)
		}
		return new(big.Int).SetUint64(x)
	case []any:
		for i := range x {
			x[i] = c16NormYAML(x[i])
		}
		return x
	case map[string]any:
		for k := range x {
			x[k] = c16NormYAML(x[k])
		}
		return x
	case map[any]any:
		return "<map with non-string keys>"
	}
	return v
}

// BurntSushi's decoder loses array elements when a key below the root is the empty string and an array holds
// an inline table (`[t]\n"" = [{a = 1}, 2]` gives {"t":{"":[{"a":1}]}}): that class has its own signature.
func c16NestedEmptyKey(v *c16V, depth int) bool {
	if v.K == c16KMap && depth > 0 {
		for _, k := range v.Keys {
			if k == "" {
				return true
			}
		}
	}
	for _, c := range v.A {
		if c16NestedEmptyKey(c, depth+1) {
			return true
		}
	}
	return false
}

func c16TableInArray(v *c16V, inArr bool) bool {
	if v.K == c16KMap && inArr {
		return true
	}
	for _, c := range v.A {
		if c16TableInArray(c, inArr || v.K == c16KArr) {
			return true
		}
	}
	return false
}

// ---- TOML ----

var c16DomTOML = &c16Dom{boolean: true, float: true, nanInf: true, str: true, arr: true, maps: true,
	intMin: c16MinInt64, intMax: c16MaxInt64, top: 2}

func c16TOMLString(sb *bytes.Buffer, s string, r *gen.Rand, key bool) {
	// literal string when it needs no escaping (TOML v1.0.0 "String")
	plain := !strings.ContainsAny(s, "'\n\r") && utf8.ValidString(s)
	for _, c := range s {
		if c < 0x20 && c != '\t' || c == 0x7f {
			plain = false
		}
	}
	if plain && r.Intn(3) == 0 {
		sb.WriteByte('\'')
		sb.WriteString(s)
		sb.WriteByte('\'')
		return
	}
	multi := !key && r.Intn(5) == 0
	if multi {
		sb.WriteString("\"\"\"\n") // a newline right after the delimiter is trimmed
	} else {
		sb.WriteByte('"')
	}
	for _, c := range s {
		switch {
		case c == '"' || c == '\\':
			sb.WriteByte('\\')
			sb.WriteRune(c)
		case c == '\n' && multi:
			sb.WriteByte('\n')
		case c == '\n':
			sb.WriteString(`\n`)
		case c == '\t':
			sb.WriteString(`\t`)
		case c == '\r':
			sb.WriteString(`\r`)
		case c == '\b':
			sb.WriteString(`\b`)
		case c == '\f':
			sb.WriteString(`\f`)
		case c < 0x20 || c == 0x7f:
			fmt.Fprintf(sb, `\u%04X`, c)
		case c >= 0x10000 && r.Intn(4) == 0:
			fmt.Fprintf(sb, `\U%08X`, c)
		case c >= 0x80 && c < 0x10000 && r.Intn(4) == 0:
			fmt.Fprintf(sb, `\u%04X`, c)
		default:
			sb.WriteRune(c)
		}
	}
	if multi {
		sb.WriteString(`"""`)
	} else {
		sb.WriteByte('"')
	}
}

func c16TOMLKey(sb *bytes.Buffer, k string, r *gen.Rand) {
	bare := k != ""
	for i := 0; i < len(k); i++ {
		c := k[i]
		if !(c >= 'a' && c <= 'z' || c >= 'A' && c <= 'Z' || c >= '0' && c <= '9' || c == '_' || c == '-') {
			bare = false
		}
	}
	if bare && r.Bool() {
		sb.WriteString(k)
		return
	}
	c16TOMLString(sb, k, r, true)
}

func c16TOMLValue(sb *bytes.Buffer, v *c16V, r *gen.Rand) {
	switch v.K {
	case c16KBool:
		fmt.Fprint(sb, v.B)
	case c16KInt:
		x := v.I
		switch k := r.Intn(8); {
		case k == 0 && x.Sign() >= 0:
			sb.WriteString("0x" + x.Text(16))
		case k == 1 && x.Sign() >= 0:
			sb.WriteString("0o" + x.Text(8))
		case k == 2 && x.Sign() >= 0:
			sb.WriteString("0b" + x.Text(2))
		case k == 3 && x.Sign() >= 0:
			sb.WriteString("+" + x.String())
		case k == 4:
			// underscores between digits
			s := x.String()
			for i := 0; i < len(s); i++ {
				sb.WriteByte(s[i])
				if i+1 < len(s) && s[i] != '-' && (len(s)-1-i)%3 == 0 {
					sb.WriteByte('_')
				}
			}
		default:
			sb.WriteString(x.String())
		}
	case c16KFloat:
		f := v.F
		switch {
		case math.IsInf(f, 1):
			sb.WriteString(gen.Pick(r, []string{"inf", "+inf"}))
		case math.IsInf(f, -1):
			sb.WriteString("-inf")
		case math.IsNaN(f):
			sb.WriteString(gen.Pick(r, []string{"nan", "+nan", "-nan"}))
		default:
			s := strconv.FormatFloat(f, gen.Pick(r, []byte{'g', 'g', 'e', 'E'}), -1, 64)
			if !strings.ContainsAny(s, ".eE") {
				s += ".0"
			}
			// a fractional part needs digits on both sides: "1e+21" and "1.5e-07" are fine as they are
			sb.WriteString(s)
		}
	case c16KStr:
		c16TOMLString(sb, v.S, r, false)
	case c16KArr:
		sb.WriteByte('[')
		for i, c := range v.A {
			if i > 0 {
				sb.WriteString(gen.Pick(r, []string{", ", ",", ",\n  "}))
			}
			c16TOMLValue(sb, c, r)
		}
		if len(v.A) > 0 && r.Intn(4) == 0 {
			sb.WriteString(",\n") // trailing comma and newlines are allowed inside arrays
		}
		sb.WriteByte(']')
	case c16KMap:
		sb.WriteString("{")
		for i, c := range v.A {
			if i > 0 {
				sb.WriteString(", ")
			}
			c16TOMLKey(sb, v.Keys[i], r)
			sb.WriteString(" = ")
			c16TOMLValueInline(sb, c, r)
		}
		sb.WriteString("}")
	default:
		panic("toml: kind")
	}
}

// inside an inline table no newlines are allowed outside of values: use single-line arrays/strings
func c16TOMLValueInline(sb *bytes.Buffer, v *c16V, r *gen.Rand) {
	var tmp bytes.Buffer
	c16TOMLValue(&tmp, v, r)
	if bytes.IndexByte(tmp.Bytes(), '\n') < 0 {
		sb.Write(tmp.Bytes())
		return
	}
	// re-emit deterministically without optional newlines
	c16TOMLValueFlat(sb, v)
}

func c16TOMLValueFlat(sb *bytes.Buffer, v *c16V) {
	fr := gen.New(1)
	switch v.K {
	case c16KStr:
		var b bytes.Buffer
		b.WriteByte('"')
		for _, c := range v.S {
			switch {
			case c == '"' || c == '\\':
				b.WriteByte('\\')
				b.WriteRune(c)
			case c < 0x20 || c == 0x7f:
				fmt.Fprintf(&b, `\u%04X`, c)
			default:
				b.WriteRune(c)
			}
		}
		b.WriteByte('"')
		sb.Write(b.Bytes())
	case c16KArr:
		sb.WriteByte('[')
		for i, c := range v.A {
			if i > 0 {
				sb.WriteString(", ")
			}
			c16TOMLValueFlat(sb, c)
		}
		sb.WriteByte(']')
	case c16KMap:
		sb.WriteString("{")
		for i, c := range v.A {
			if i > 0 {
				sb.WriteString(", ")
			}
			c16TOMLString(sb, v.Keys[i], fr, true)
			sb.WriteString(" = ")
			c16TOMLValueFlat(sb, c)
		}
		sb.WriteString("}")
	case c16KInt:
		sb.WriteString(v.I.String())
	default:
		c16TOMLValue(sb, v, fr)
	}
}

func c16TOMLCase(r *gen.Rand, depth int) *c16Text {
	v := c16Gen(r, c16DomTOML, depth, true)
	t := &c16Text{format: "toml", exp: v.repr(), shape: v.shape(4)}
	if r.Intn(3) == 0 {
		var sb bytes.Buffer
		if err := toml.NewEncoder(&sb).Encode(c16ToGo(v)); err == nil {
			t.variant = "burntsushi-encoder"
			t.doc = sb.Bytes()
		}
	}
	if t.doc == nil {
		// hand-written: key/value pairs, nested tables as [section] headers (one level) or inline tables
		t.variant = "hand/inline"
		var sb, tables bytes.Buffer
		if r.Intn(4) == 0 {
			sb.WriteString("# comment\n\n")
		}
		for i, c := range v.A {
			if c.K == c16KMap && r.Bool() {
				t.variant = "hand/sections"
				tables.WriteString("\n[")
				c16TOMLKey(&tables, v.Keys[i], r)
				tables.WriteString("]\n")
				for j, cc := range c.A {
					c16TOMLKey(&tables, c.Keys[j], r)
					tables.WriteString(" = ")
					c16TOMLValueInline(&tables, cc, r)
					tables.WriteString("\n")
				}
				continue
			}
			c16TOMLKey(&sb, v.Keys[i], r)
			sb.WriteString(gen.Pick(r, []string{" = ", "=", "\t=  "}))
			if c.K == c16KMap {
				c16TOMLValueInline(&sb, c, r)
			} else {
				c16TOMLValue(&sb, c, r)
			}
			sb.WriteString(gen.Pick(r, []string{"\n", "\n", " # c\n", "\r\n"}))
		}
		sb.Write(tables.Bytes())
		t.doc = sb.Bytes()
	}
	t.trailers = [][]byte{[]byte("\n]\n"), []byte("\n= 1\n"), []byte("\nx\n"), []byte("\n}\n")}
	if !bytes.Contains(t.doc, []byte("\n[")) && t.doc[0] != '[' {
		// no table header: the document once more defines every top-level key twice, which TOML forbids
		dup := append([]byte("\n"), t.doc...)
		t.trailers = append(t.trailers, dup)
		label := "same-keys-again"
		allArr := true
		for _, c := range v.A {
			if c.K != c16KArr {
				allArr = false
			}
		}
		if allArr {
			label = "same-keys-again-all-values-arrays"
		}
		t.trailerLabels = map[string]string{string(dup): label}
	}
	if c16NestedEmptyKey(v, 0) && c16TableInArray(v, false) {
		t.class = "nested-empty-key+table-in-array"
	}
	t.benign = [][]byte{[]byte("\n"), []byte("\n# trailing comment\n")}
	return t
}

// ---- XML ----

type c16XE struct {
	name    string
	attrs   [][2]string
	text    string // trimmed, non-empty means present
	pad     [2]string
	comment string
	kids    []*c16XE
}

func c16XMLChars(s string) string {
	var sb strings.Builder
	for _, r := range s {
		if r == 0x09 || r == 0x0A || r == 0x0D || r >= 0x20 && r <= 0xD7FF || r >= 0xE000 && r <= 0xFFFD && r != 0xfffd || r >= 0x10000 && r <= 0x10FFFF {
			sb.WriteRune(r)
		}
	}
	return sb.String()
}

func c16XMLName(r *gen.Rand) string {
	if r.Intn(8) == 0 {
		return gen.Pick(r, []string{"é1", "名", "a.b", "a-b", "_x", "A", "Ünï"})
	}
	n := 1 + r.Intn(3)
	b := make([]byte, n)
	for i := range b {
		b[i] = byte('a' + r.Intn(6))
	}
	if string(b[:1]) == "x" {
		b[0] = 'y'
	}
	return string(b)
}

func c16GenXE(r *gen.Rand, depth int) *c16XE {
	x := &c16XE{name: c16XMLName(r)}
	seen := map[string]bool{}
	for i := r.Intn(4) - 1; i > 0; i-- {
		n := c16XMLName(r)
		if seen[n] {
			continue
		}
		seen[n] = true
		x.attrs = append(x.attrs, [2]string{n, c16XMLChars(c16GenStr(r, &c16Dom{}, false))})
	}
	if r.Intn(3) > 0 {
		x.text = strings.TrimSpace(c16XMLChars(c16GenStr(r, &c16Dom{}, false)))
		if x.text != "" && r.Intn(3) == 0 {
			x.pad = [2]string{gen.Pick(r, []string{"", " ", "\n  ", "\t"}), gen.Pick(r, []string{"", " ", "\n", " \n\t"})}
		}
	}
	if r.Intn(6) == 0 {
		c := strings.TrimSpace(strings.ReplaceAll(c16XMLChars(c16GenStr(r, &c16Dom{}, false)), "-", "_"))
		x.comment = c
	}
	if depth > 0 {
		for i := r.Intn(5) - 1; i > 0; i-- {
			x.kids = append(x.kids, c16GenXE(r, depth-1))
		}
	}
	return x
}

// obj is the documented "elements as object" mapping (format/xml/xml.md).
func (x *c16XE) obj() (string, any) {
	attrs := map[string]any{}
	for _, a := range x.attrs {
		attrs["@"+a[0]] = a[1]
	}
	for _, k := range x.kids {
		n, v := k.obj()
		if e, ok := attrs[n]; ok {
			if ea, ok := e.([]any); ok {
				attrs[n] = append(ea, v)
			} else {
				attrs[n] = []any{e, v}
			}
		} else {
			attrs[n] = v
		}
	}
	if x.text != "" {
		attrs["#text"] = x.text
	}
	if x.comment != "" {
		attrs["#comment"] = x.comment
	}
	if len(attrs) == 0 {
		return x.name, ""
	}
	if len(attrs) == 1 && x.text != "" {
		return x.name, x.text
	}
	return x.name, attrs
}

// arr is the documented "elements as array" mapping.
func (x *c16XE) arr() any {
	attrs := map[string]any{}
	for _, a := range x.attrs {
		attrs[a[0]] = a[1]
	}
	if x.text != "" {
		attrs["#text"] = x.text
	}
	if x.comment != "" {
		attrs["#comment"] = x.comment
	}
	kids := []any{}
	for _, k := range x.kids {
		kids = append(kids, k.arr())
	}
	var a any
	if len(attrs) > 0 {
		a = attrs
	}
	return []any{x.name, a, kids}
}

func (x *c16XE) mixed() bool {
	if x.text != "" && len(x.kids) > 0 {
		return true
	}
	for _, k := range x.kids {
		if k.mixed() {
			return true
		}
	}
	return false
}

func (x *c16XE) shape(d int) string {
	s := fmt.Sprintf("e%da%d", len(x.kids), len(x.attrs))
	if x.text != "" {
		s += "t"
	}
	if d > 0 {
		for _, k := range x.kids {
			s += "(" + k.shape(d-1) + ")"
		}
	}
	return s
}

func (x *c16XE) tokens(enc *xml.Encoder, r *gen.Rand) {
	st := xml.StartElement{Name: xml.Name{Local: x.name}}
	for _, a := range x.attrs {
		st.Attr = append(st.Attr, xml.Attr{Name: xml.Name{Local: a[0]}, Value: a[1]})
	}
	must := func(err error) {
		if err != nil {
			panic(err)
		}
	}
	must(enc.EncodeToken(st))
	textAt := 0
	if len(x.kids) > 0 {
		textAt = r.Intn(len(x.kids) + 1)
	}
	emitText := func() {
		if x.text != "" {
			must(enc.EncodeToken(xml.CharData(x.pad[0] + x.text + x.pad[1])))
		}
		if x.comment != "" {
			must(enc.EncodeToken(xml.Comment(" " + x.comment + " ")))
		}
	}
	for i, k := range x.kids {
		if i == textAt {
			emitText()
		}
		k.tokens(enc, r)
	}
	if textAt == len(x.kids) {
		emitText()
	}
	must(enc.EncodeToken(st.End()))
}

func c16XMLEsc(s string) string {
	var b bytes.Buffer
	if err := xml.EscapeText(&b, []byte(s)); err != nil {
		panic(err)
	}
	return b.String()
}

func (x *c16XE) hand(sb *bytes.Buffer, r *gen.Rand) {
	sb.WriteByte('<')
	sb.WriteString(x.name)
	for _, a := range x.attrs {
		sb.WriteString(gen.Pick(r, []string{" ", " ", "  ", "\n "}))
		sb.WriteString(a[0])
		sb.WriteString(gen.Pick(r, []string{"=", "=", " = "}))
		v := c16XMLEsc(a[1]) // escapes both quote characters
		q := gen.Pick(r, []string{`"`, `'`})
		sb.WriteString(q + v + q)
	}
	if x.text == "" && x.comment == "" && len(x.kids) == 0 && r.Bool() {
		sb.WriteString(gen.Pick(r, []string{"/>", " />"}))
		return
	}
	sb.WriteByte('>')
	textAt := 0
	if len(x.kids) > 0 {
		textAt = r.Intn(len(x.kids) + 1)
	}
	emitText := func() {
		if x.text != "" {
			sb.WriteString(x.pad[0])
			switch k := r.Intn(4); {
			case k == 0 && !strings.Contains(x.text, "]]>") && !strings.Contains(x.text, "\r"):
				sb.WriteString("<![CDATA[" + x.text + "]]>")
			case k == 1:
				// numeric character references
				for _, c := range x.text {
					if r.Intn(3) == 0 || c == '<' || c == '&' || c == '>' || c == '\r' {
						fmt.Fprintf(sb, gen.Pick(r, []string{"&#%d;", "&#x%x;", "&#x%X;"}), c)
					} else {
						sb.WriteRune(c)
					}
				}
			default:
				sb.WriteString(c16XMLEsc(x.text))
			}
			sb.WriteString(x.pad[1])
		}
		if x.comment != "" {
			sb.WriteString("<!-- " + x.comment + " -->")
		}
	}
	for i, k := range x.kids {
		if i == textAt {
			emitText()
		}
		k.hand(sb, r)
	}
	if textAt == len(x.kids) {
		emitText()
	}
	sb.WriteString("</" + x.name + gen.Pick(r, []string{">", ">", " >"}))
}

func c16XMLCase(r *gen.Rand, depth int) *c16Text {
	x := c16GenXE(r, depth)
	t := &c16Text{format: "xml", shape: x.shape(3)}
	var sb bytes.Buffer
	switch r.Intn(3) {
	case 0:
		t.variant = "encoder"
		enc := xml.NewEncoder(&sb)
		if !x.mixed() && r.Bool() {
			enc.Indent("", "  ")
			t.variant = "encoder/indent"
		}
		x.tokens(enc, r)
		if err := enc.Flush(); err != nil {
			panic(err)
		}
	default:
		t.variant = "hand"
		if r.Intn(3) == 0 {
			sb.WriteString(`<?xml version="1.0" encoding="UTF-8"?>` + "\n")
			t.variant = "hand/prolog"
			if r.Bool() {
				sb.WriteString("<!-- c -->\n")
			}
		}
		x.hand(&sb, r)
	}
	t.doc = sb.Bytes()
	if r.Intn(3) == 0 {
		t.opts = map[string]any{"array": true}
		t.exp = x.arr()
		t.variant += "+array"
	} else {
		n, v := x.obj()
		t.exp = map[string]any{n: v}
	}
	t.prefixes = true
	t.trailers = [][]byte{[]byte("<x/>"), []byte("text"), []byte("\n<a>1</a>\n"), []byte("</" + x.name + ">"), []byte("<")}
	t.benign = [][]byte{[]byte("\n"), []byte(" \n\t"), []byte("\n<?pi x?>\n")}
	return t
}

// ---- CSV ----

func c16CSVCase(r *gen.Rand) *c16Text {
	rows := 1 + r.Intn(6)
	cols := 1 + r.Intn(5)
	quoteAll := r.Intn(3) == 0
	recs := make([][]string, rows)
	for i := range recs {
		recs[i] = make([]string, cols)
		for j := range recs[i] {
			var f string
			switch r.Intn(5) {
			case 0:
				f = ""
			case 1:
				f = gen.Pick(r, []string{"a,b", "say \"hi\"", "line\nbreak", " lead", "trail ", "\"", "\"\"", ",", "'", "a;b", "tab\there", "#x", "x#", "日本,語"})
			default:
				f = c16GenStr(r, &c16Dom{}, false)
			}
			// RFC 4180 has no carriage returns inside fields other than as part of CRLF; encoding/csv (reader) drops them
			f = strings.ReplaceAll(f, "\r", "")
			recs[i][j] = f
		}
		if !quoteAll {
			// fq's csv defaults (documented options): comment="#", so an unquoted record starting with # is a comment;
			// encoding/csv writes a record of one empty field as an empty line, which no reader can see
			if strings.HasPrefix(recs[i][0], "#") {
				recs[i][0] = "x" + recs[i][0]
			}
			if cols == 1 && recs[i][0] == "" {
				recs[i][0] = "-"
			}
		}
	}
	t := &c16Text{format: "csv", shape: fmt.Sprintf("%dx%d", rows, cols)}
	var sb bytes.Buffer
	if quoteAll {
		t.variant = "hand/quote-all"
		eol := gen.Pick(r, []string{"\n", "\r\n"})
		for i, rec := range recs {
			for j, f := range rec {
				if j > 0 {
					sb.WriteByte(',')
				}
				sb.WriteString(`"` + strings.ReplaceAll(f, `"`, `""`) + `"`)
			}
			if i < len(recs)-1 || r.Bool() {
				sb.WriteString(eol)
			}
		}
	} else {
		t.variant = "csv.Writer"
		w := csv.NewWriter(&sb)
		if r.Bool() {
			w.UseCRLF = true
			t.variant = "csv.Writer/crlf"
		}
		if err := w.WriteAll(recs); err != nil {
			panic(err)
		}
	}
	t.doc = sb.Bytes()
	exp := make([]any, len(recs))
	for i, rec := range recs {
		row := make([]any, len(rec))
		for j, f := range rec {
			row[j] = f
		}
		exp[i] = row
	}
	t.exp = exp
	return t
}
