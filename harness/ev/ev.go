// Package ev: verdicts, evidence, replay files and known-finding matching.
package ev

import (
	"crypto/sha256"
	"encoding/hex"
	"encoding/json"
	"fmt"
	"os"
	"path/filepath"
	"regexp"
	"sort"
	"strconv"
	"sync"
	"time"
)

// VerifDir is /verif unless VERIF_DIR overrides it (vp run snapshots).
func VerifDir() string {
	if d := os.Getenv("VERIF_DIR"); d != "" {
		return d
	}
	return "/verif"
}

type Finding struct {
	Property  string `json:"property"`
	Status    string `json:"status"` // "known" or "fixed"
	Signature string `json:"signature"`
	What      string `json:"what"`
	Commit    string `json:"commit,omitempty"`
	Witness   string `json:"witness,omitempty"`
	re        *regexp.Regexp
}

type Run struct {
	ID    string
	Tier  string
	Seed  uint64
	Level string
	start time.Time

	mu           sync.Mutex
	counters     map[string]int64
	distinct     map[[8]byte]struct{}
	samples      []any
	maxSamples   int
	evaluations  int64
	violations   int
	inconclusive int
	violSigs     map[string]int
	knownHits    map[string]int
	known        []*Finding
	Rule         string
	Assumptions  []string
	Extra        map[string]any
	MinDistinct  int
	requires     map[string]int64
	firstReplay  string
}

func Tier() string {
	t := os.Getenv("VERIF_TIER")
	if t == "" {
		t = "quick"
	}
	return t
}

func Seed() uint64 {
	s := os.Getenv("VERIF_SEED")
	if s == "" {
		return 1
	}
	v, err := strconv.ParseInt(s, 10, 64)
	if err != nil {
		u, err2 := strconv.ParseUint(s, 10, 64)
		if err2 != nil {
			return 1
		}
		return u
	}
	return uint64(v)
}

func NewRun(id string) *Run {
	r := &Run{
		ID: id, Tier: Tier(), Seed: Seed(), Level: "exploration", start: time.Now(),
		counters: map[string]int64{}, distinct: map[[8]byte]struct{}{},
		violSigs: map[string]int{}, knownHits: map[string]int{}, maxSamples: 8,
		Extra: map[string]any{}, MinDistinct: 2,
	}
	r.loadKnown()
	return r
}

func (r *Run) Thorough() bool { return r.Tier == "thorough" }

// Pick returns q in the quick tier and t in the thorough tier.
func (r *Run) Pick(q, t int) int {
	if r.Thorough() {
		return t
	}
	return q
}

func (r *Run) loadKnown() {
	b, err := os.ReadFile(filepath.Join(VerifDir(), "known_findings.json"))
	if err != nil {
		return
	}
	var all struct {
		Findings []*Finding `json:"findings"`
	}
	if err := json.Unmarshal(b, &all); err != nil {
		fmt.Fprintf(os.Stderr, "known_findings.json: %v\n", err)
		os.Exit(2)
	}
	for _, f := range all.Findings {
		if f.Property != r.ID || f.Status != "known" {
			continue
		}
		re, err := regexp.Compile("^(?:" + f.Signature + ")$")
		if err != nil {
			fmt.Fprintf(os.Stderr, "known_findings.json: bad signature %q: %v\n", f.Signature, err)
			os.Exit(2)
		}
		f.re = re
		r.known = append(r.known, f)
	}
}

// Require makes the run BROKEN (exit 3, no verdict) unless counter name reached min: a monitor that
// observed nothing must not pass.
func (r *Run) Require(name string, min int64) {
	r.mu.Lock()
	if r.requires == nil {
		r.requires = map[string]int64{}
	}
	r.requires[name] = min
	r.mu.Unlock()
}

func (r *Run) Count(name string, n int64) {
	r.mu.Lock()
	r.counters[name] += n
	r.mu.Unlock()
}

func (r *Run) Counter(name string) int64 {
	r.mu.Lock()
	defer r.mu.Unlock()
	return r.counters[name]
}

// Eval records one evaluated case.
func (r *Run) Eval(n int64) {
	r.mu.Lock()
	r.evaluations += n
	r.mu.Unlock()
}

// Distinct records a non-trivial case by its normalised key; duplicates are ignored.
func (r *Run) Distinct(key string) {
	h := sha256.Sum256([]byte(key))
	var k [8]byte
	copy(k[:], h[:8])
	r.mu.Lock()
	r.distinct[k] = struct{}{}
	r.mu.Unlock()
}

func (r *Run) Sample(v any) {
	r.mu.Lock()
	if len(r.samples) < r.maxSamples {
		r.samples = append(r.samples, v)
	}
	r.mu.Unlock()
}

func (r *Run) Inconclusive(what string) {
	r.mu.Lock()
	r.inconclusive++
	r.counters["inconclusive:"+what]++
	r.mu.Unlock()
}

func (r *Run) Violations() int {
	r.mu.Lock()
	defer r.mu.Unlock()
	return r.violations
}

// Violation reports a refuting observation. sig is the narrow signature matched against
// known findings; replay is any JSON-serialisable description sufficient to re-run the case.
// Returns true if it was a new (unlisted) violation.
func (r *Run) Violation(sig string, desc string, replay any) bool {
	r.mu.Lock()
	defer r.mu.Unlock()
	for _, f := range r.known {
		if f.re.MatchString(sig) {
			if r.knownHits[f.Signature] == 0 {
				fmt.Printf("KNOWN-FINDING: property=%s %s [sig %s]\n", r.ID, f.What, f.Signature)
			}
			r.knownHits[f.Signature]++
			return false
		}
	}
	r.violations++
	r.violSigs[sig]++
	if r.violSigs[sig] > 3 { // do not flood: three witnesses per signature
		return true
	}
	dir := filepath.Join(VerifDir(), "replays", r.ID)
	_ = os.MkdirAll(dir, 0o755)
	h := sha256.Sum256([]byte(sig + desc))
	path := filepath.Join(dir, fmt.Sprintf("%s-%s.json", hex.EncodeToString(h[:6]), r.Tier))
	doc := map[string]any{"property": r.ID, "seed": r.Seed, "tier": r.Tier, "signature": sig, "description": desc, "case": replay}
	b, _ := json.MarshalIndent(doc, "", " ")
	_ = os.WriteFile(path, b, 0o644)
	if r.firstReplay == "" {
		r.firstReplay = path
	}
	fmt.Printf("VIOLATION property=%s replay=%s\n", r.ID, path)
	fmt.Printf("  signature: %s\n  %s\n", sig, trunc(desc, 2000))
	return true
}

func trunc(s string, n int) string {
	if len(s) > n {
		return s[:n] + "…"
	}
	return s
}

// Finish writes the evidence file and exits with the verdict.
func (r *Run) Finish() {
	code := r.FinishNoExit()
	RunAtExit()
	os.Exit(code)
}

var (
	atExitMu  sync.Mutex
	atExitFns []func()
)

// AtExit registers a cleanup (scratch directories) that Finish runs before os.Exit; deferred calls do not run then.
func AtExit(fn func()) {
	atExitMu.Lock()
	atExitFns = append(atExitFns, fn)
	atExitMu.Unlock()
}

func RunAtExit() {
	atExitMu.Lock()
	fns := atExitFns
	atExitFns = nil
	atExitMu.Unlock()
	for i := len(fns) - 1; i >= 0; i-- {
		fns[i]()
	}
}

func (r *Run) FinishNoExit() int {
	r.mu.Lock()
	defer r.mu.Unlock()
	cov := map[string]any{
		"evaluations":         r.evaluations,
		"distinct_nontrivial": len(r.distinct),
		"rule":                r.Rule,
		"samples":             r.samples,
		"observed":            r.counters,
		"inconclusive":        r.inconclusive,
	}
	if len(r.knownHits) > 0 {
		cov["known_finding_hits"] = r.knownHits
	}
	if len(r.violSigs) > 0 {
		cov["violation_signatures"] = r.violSigs
	}
	for k, v := range r.Extra {
		cov[k] = v
	}
	if r.samples == nil {
		cov["samples"] = []any{}
	}
	doc := map[string]any{
		"property_id": r.ID,
		"tier":        r.Tier,
		"seed":        int64(r.Seed),
		"level":       r.Level,
		"coverage":    cov,
		"assumptions": r.Assumptions,
		"wall_s":      time.Since(r.start).Seconds(),
		"violations":  r.violations,
	}
	if r.Assumptions == nil {
		doc["assumptions"] = []string{}
	}
	b, err := json.MarshalIndent(doc, "", " ")
	if err != nil {
		fmt.Fprintf(os.Stderr, "evidence marshal: %v\n", err)
		return 2
	}
	dir := filepath.Join(VerifDir(), "evidence")
	if d := os.Getenv("VERIF_EVIDENCE_DIR"); d != "" {
		dir = d // replays: the re-run must not overwrite the evidence of the registered run
	}
	_ = os.MkdirAll(dir, 0o755)
	if err := os.WriteFile(filepath.Join(dir, r.ID+".json"), append(b, '\n'), 0o644); err != nil {
		fmt.Fprintf(os.Stderr, "evidence write: %v\n", err)
		return 2
	}
	keys := make([]string, 0, len(r.counters))
	for k := range r.counters {
		keys = append(keys, k)
	}
	sort.Strings(keys)
	fmt.Printf("%s %s seed=%d: evaluations=%d distinct_nontrivial=%d violations=%d inconclusive=%d known_hits=%d wall=%.1fs\n",
		r.ID, r.Tier, r.Seed, r.evaluations, len(r.distinct), r.violations, r.inconclusive, len(r.knownHits), time.Since(r.start).Seconds())
	if os.Getenv("VERIF_VERBOSE") != "" {
		for _, k := range keys {
			fmt.Printf("  %-50s %d\n", k, r.counters[k])
		}
	}
	if r.violations > 0 {
		return 1
	}
	for name, min := range r.requires {
		if r.counters[name] < min {
			fmt.Printf("BROKEN property=%s: monitor observed %s=%d, needs >= %d\n", r.ID, name, r.counters[name], min)
			return 3
		}
	}
	if r.evaluations < 1 || len(r.distinct) < r.MinDistinct {
		fmt.Printf("BROKEN property=%s: monitors observed too little (evaluations=%d distinct=%d, need distinct>=%d)\n", r.ID, r.evaluations, len(r.distinct), r.MinDistinct)
		return 3
	}
	return 0
}
