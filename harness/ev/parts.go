package ev

import (
	"encoding/hex"
	"encoding/json"
	"os"
)

// Part is the serialisable state of a Run, used to merge worker processes into the parent.
type Part struct {
	Counters     map[string]int64 `json:"counters"`
	Distinct     []string         `json:"distinct"`
	Samples      []any            `json:"samples"`
	Evaluations  int64            `json:"evaluations"`
	Violations   int              `json:"violations"`
	Inconclusive int              `json:"inconclusive"`
	ViolSigs     map[string]int   `json:"viol_sigs"`
	KnownHits    map[string]int   `json:"known_hits"`
	FirstReplay  string           `json:"first_replay"`
}

func (r *Run) WritePart(path string) error {
	r.mu.Lock()
	p := Part{Counters: r.counters, Samples: r.samples, Evaluations: r.evaluations, Violations: r.violations,
		Inconclusive: r.inconclusive, ViolSigs: r.violSigs, KnownHits: r.knownHits, FirstReplay: r.firstReplay}
	for k := range r.distinct {
		p.Distinct = append(p.Distinct, hex.EncodeToString(k[:]))
	}
	b, err := json.Marshal(p)
	r.mu.Unlock()
	if err != nil {
		return err
	}
	tmp := path + ".tmp"
	if err := os.WriteFile(tmp, b, 0o644); err != nil {
		return err
	}
	return os.Rename(tmp, path)
}

func (r *Run) MergePart(path string) error {
	b, err := os.ReadFile(path)
	if err != nil {
		return err
	}
	var p Part
	if err := json.Unmarshal(b, &p); err != nil {
		return err
	}
	r.mu.Lock()
	defer r.mu.Unlock()
	for k, v := range p.Counters {
		r.counters[k] += v
	}
	for _, d := range p.Distinct {
		raw, err := hex.DecodeString(d)
		if err != nil || len(raw) != 8 {
			continue
		}
		var k [8]byte
		copy(k[:], raw)
		r.distinct[k] = struct{}{}
	}
	for _, s := range p.Samples {
		if len(r.samples) < r.maxSamples {
			r.samples = append(r.samples, s)
		}
	}
	r.evaluations += p.Evaluations
	r.violations += p.Violations
	r.inconclusive += p.Inconclusive
	for k, v := range p.ViolSigs {
		r.violSigs[k] += v
	}
	for k, v := range p.KnownHits {
		r.knownHits[k] += v
	}
	if r.firstReplay == "" {
		r.firstReplay = p.FirstReplay
	}
	return nil
}

// Quiet suppresses nothing but marks this run as a worker: KNOWN-FINDING lines are still printed
// (the parent de-duplicates them).
func (r *Run) IsWorker() bool { return os.Getenv("VERIF_WORKER") != "" }

// EnsureViolations makes the verdict reflect VIOLATION lines that a dead worker printed but never flushed.
func (r *Run) EnsureViolations(n int) {
	r.mu.Lock()
	if r.violations < n {
		r.violations = n
	}
	r.mu.Unlock()
}
