// Package vos: an in-memory interp.OS so fq's CLI runs fully in-process.
package vos

import (
	"bytes"
	"context"
	"errors"
	"io"
	"io/fs"
	"path"
	"sort"
	"strings"
	"sync"
	"time"

	"github.com/wader/fq/pkg/interp"
)

type Out struct {
	mu       sync.Mutex
	Buf      bytes.Buffer
	Terminal bool
	W, H     int
	OnWrite  func(p []byte)
	// Limit > 0: stop storing once Buf holds Limit bytes (Total still counts everything written)
	Limit int
	Total int64
}

func (o *Out) Write(p []byte) (int, error) {
	o.mu.Lock()
	o.Total += int64(len(p))
	if o.Limit <= 0 || o.Buf.Len() < o.Limit {
		o.Buf.Write(p)
	}
	cb := o.OnWrite
	o.mu.Unlock()
	if cb != nil {
		cb(p)
	}
	return len(p), nil
}
func (o *Out) Size() (int, int)  { return o.W, o.H }
func (o *Out) IsTerminal() bool { return o.Terminal }
func (o *Out) String() string {
	o.mu.Lock()
	defer o.mu.Unlock()
	return o.Buf.String()
}
func (o *Out) TotalWritten() int64 {
	o.mu.Lock()
	defer o.mu.Unlock()
	return o.Total
}
func (o *Out) Bytes() []byte {
	o.mu.Lock()
	defer o.mu.Unlock()
	return append([]byte(nil), o.Buf.Bytes()...)
}

type in struct {
	interp.FileReader
	terminal bool
}

func (i in) Size() (int, int)  { return 135, 25 }
func (i in) IsTerminal() bool { return i.terminal }

type OS struct {
	ArgsV      []string
	Files      map[string][]byte
	Dirs       map[string]bool
	StdinData  []byte
	StdinTerm  bool
	Env        []string
	StdoutV    *Out
	StderrV    *Out
	Interrupt  chan struct{}
	Lines      []string // scripted readline answers; io.EOF afterwards
	linePos    int
	OnReadline func(prompt string, n int)
	mu         sync.Mutex
	// OpenHook, if set, may wrap the reader of a file (slow readers for C20)
	OpenHook func(name string, r io.ReadSeeker) io.ReadSeeker
}

func New(args ...string) *OS {
	return &OS{
		ArgsV:   append([]string{"fq"}, args...),
		Files:   map[string][]byte{},
		Dirs:    map[string]bool{},
		StdoutV: &Out{W: 135, H: 25},
		StderrV: &Out{},
		Env:     []string{"NO_COLOR=1", "NO_DECODE_PROGRESS=1", "COMPLETION_TIMEOUT=10"},
	}
}

func (o *OS) Platform() interp.Platform {
	return interp.Platform{OS: "verifos", Arch: "verifarch", GoVersion: "verifgo"}
}
func (o *OS) Stdin() interp.Input {
	return in{FileReader: interp.FileReader{R: bytes.NewReader(o.StdinData)}, terminal: o.StdinTerm}
}
func (o *OS) Stdout() interp.Output          { return o.StdoutV }
func (o *OS) Stderr() interp.Output          { return o.StderrV }
func (o *OS) InterruptChan() chan struct{}  { return o.Interrupt }
func (o *OS) Args() []string                 { return o.ArgsV }
func (o *OS) Environ() []string              { return o.Env }
func (o *OS) ConfigDir() (string, error)     { return "/config", nil }
func (o *OS) FS() fs.FS                      { return o }
func (o *OS) History() ([]string, error)     { return nil, nil }
func (o *OS) Readline(opts interp.ReadlineOpts) (string, error) {
	o.mu.Lock()
	n := o.linePos
	o.mu.Unlock()
	_, _ = o.StdoutV.Write([]byte(opts.Prompt))
	if o.OnReadline != nil {
		o.OnReadline(opts.Prompt, n)
	}
	o.mu.Lock()
	defer o.mu.Unlock()
	if o.linePos >= len(o.Lines) {
		return "", io.EOF
	}
	l := o.Lines[o.linePos]
	o.linePos++
	if l == "^D" {
		return "", io.EOF
	}
	if l == "^C" {
		return "", interp.ErrInterrupt
	}
	return l, nil
}

type dirFile struct {
	name    string
	entries []fs.DirEntry
}

func (d *dirFile) Stat() (fs.FileInfo, error) {
	return interp.FixedFileInfo{FName: path.Base(d.name), FIsDir: true, FMode: fs.ModeDir | 0o755}, nil
}
func (d *dirFile) Read(p []byte) (int, error) {
	return 0, &fs.PathError{Op: "read", Path: d.name, Err: errors.New("is a directory")}
}
func (d *dirFile) Close() error { return nil }
func (d *dirFile) ReadDir(n int) ([]fs.DirEntry, error) {
	e := d.entries
	d.entries = nil
	return e, nil
}

type memFile struct {
	io.ReadSeeker
	info interp.FixedFileInfo
}

func (m memFile) Stat() (fs.FileInfo, error) { return m.info, nil }
func (m memFile) Close() error {
	if c, ok := m.ReadSeeker.(io.Closer); ok {
		return c.Close()
	}
	return nil
}

func (o *OS) Open(name string) (fs.File, error) {
	name = path.Clean(name)
	if b, ok := o.Files[name]; ok {
		var rs io.ReadSeeker = io.NewSectionReader(bytes.NewReader(b), 0, int64(len(b)))
		if o.OpenHook != nil {
			rs = o.OpenHook(name, rs)
		}
		return memFile{ReadSeeker: rs, info: interp.FixedFileInfo{FName: path.Base(name), FSize: int64(len(b)), FMode: 0o644, FModTime: time.Unix(0, 0)}}, nil
	}
	if o.Dirs[name] {
		var names []string
		for f := range o.Files {
			if path.Dir(f) == name {
				names = append(names, path.Base(f))
			}
		}
		sort.Strings(names)
		var es []fs.DirEntry
		for _, n := range names {
			es = append(es, fs.FileInfoToDirEntry(interp.FixedFileInfo{FName: n, FMode: 0o644}))
		}
		return &dirFile{name: name, entries: es}, nil
	}
	return nil, &fs.PathError{Op: "open", Path: name, Err: errors.New("no such file or directory")}
}

// Result of one in-process CLI run.
type Result struct {
	Exit   int
	Stdout []byte
	Stderr []byte
	Err    error
	Panic  any
	Stack  string
}

// RunMain runs fq's Main with this OS. Panics are NOT recovered here; callers that
// feed hostile input wrap it themselves.
func (o *OS) RunMain(ctx context.Context, reg *interp.Registry) Result {
	i, err := interp.New(o, reg)
	if err != nil {
		return Result{Exit: -1, Err: err}
	}
	defer i.Stop()
	err = i.Main(ctx, o.StdoutV, "verif")
	res := Result{Err: err, Stdout: o.StdoutV.Bytes(), Stderr: o.StderrV.Bytes()}
	if err != nil {
		res.Exit = 1 // cli.Main: non-Exiter error => 1
		if ex, ok := err.(interp.Exiter); ok { // exactly as cli.Main
			res.Exit = ex.ExitCode()
		}
	}
	return res
}

func (r Result) String() string {
	var sb strings.Builder
	sb.WriteString("exit=")
	sb.WriteString(itoa(r.Exit))
	sb.WriteString(" stdout=")
	sb.WriteString(q(r.Stdout))
	sb.WriteString(" stderr=")
	sb.WriteString(q(r.Stderr))
	return sb.String()
}

func q(b []byte) string {
	if len(b) > 600 {
		return strings.ToValidUTF8(string(b[:600]), "?") + "…"
	}
	return strings.ToValidUTF8(string(b), "?")
}
func itoa(i int) string {
	if i < 0 {
		return "-" + itoa(-i)
	}
	if i < 10 {
		return string(rune('0' + i))
	}
	return itoa(i/10) + string(rune('0'+i%10))
}
