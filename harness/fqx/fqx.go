// Package fqx: helpers to drive fq through its Go boundary.
package fqx

import (
	"context"
	"fmt"
	"runtime/debug"

	_ "github.com/wader/fq/format/all"
	"github.com/wader/fq/pkg/interp"

	"verif/vos"
)

func Registry() *interp.Registry { return interp.DefaultRegistry }

type Session struct {
	OS *vos.OS
	I  *interp.Interp
}

func NewSession() *Session {
	o := vos.New()
	i, err := interp.New(o, Registry())
	if err != nil {
		panic(err)
	}
	s := &Session{OS: o, I: i}
	// same default option stack as _main builds (without CLI arguments); global state persists per Interp
	if _, err := s.Eval(nil, `_options_stack([_opt_build_default_fixed]) | empty`); err != nil {
		panic(err)
	}
	return s
}

func (s *Session) Close() { s.I.Stop() }

// Eval runs expr on input and returns all outputs; an error output ends the list and is returned as err.
func (s *Session) Eval(input any, expr string) (outs []any, err error) {
	return s.EvalCtx(context.Background(), input, expr)
}

func (s *Session) EvalCtx(ctx context.Context, input any, expr string) (outs []any, err error) {
	iter, err := s.I.Eval(ctx, input, expr, interp.NewEvalOpts("", s.OS.StdoutV))
	if err != nil {
		return nil, err
	}
	for {
		v, ok := iter.Next()
		if !ok {
			return outs, nil
		}
		if e, ok := v.(error); ok {
			return outs, e
		}
		outs = append(outs, v)
	}
}

type PanicInfo struct {
	Value any
	Stack string
}

func (p *PanicInfo) Error() string { return fmt.Sprintf("panic: %v", p.Value) }

// Guard runs fn and converts a panic into *PanicInfo.
func Guard(fn func()) (pi *PanicInfo) {
	defer func() {
		if r := recover(); r != nil {
			pi = &PanicInfo{Value: r, Stack: string(debug.Stack())}
		}
	}()
	fn()
	return nil
}
