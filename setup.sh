#!/bin/bash
# Offline setup: build the harness once (warms the Go build cache for plain and -race variants).
set -e
cd "$(dirname "$0")"
export GOFLAGS=-mod=mod GOPROXY=off GOSUMDB=off GOTOOLCHAIN=local
mkdir -p bin evidence replays
cd harness
cp /repo/go.sum go.sum
go build -tags verif -o ../bin/vcheck ./cmd/vcheck
go build -race -tags verif -o ../bin/vcheck-race ./cmd/vcheck
echo setup ok
