#!/usr/bin/env python3
"""Generates MANIFEST.json from the table below (keeps it schema-valid)."""
import json, subprocess

ALL = ["C%02d" % i for i in range(1, 21)]

# id -> (category, level text, level note, technique, design ref)
CHECKS = {
 "C01": ("exploration",
   "History + executable model: random reader compositions (13 reader kinds incl. real files and fq's open stack) are built in lock-step with a reference bit string; every read/seek/clone/byte-view/writer call of 60k (quick) / 3M (thorough) histories plus exhaustive Read64/Write64 and exhaustive (offset,length) sweeps over short buffers is checked online. Holds on the executions observed, nothing more.",
   "Trusts the harness's own bit-string model (independent of bitio.Read64/Write64). Negative seek targets/read offsets and seek-from-end on padded byte views are outside the domain.",
   "runtime monitor: online reference-model checker over generated call histories", "DESIGN.md §3 C01"),
}

NOT_BUILT = {}

def main():
    checks = []
    for cid in ALL:
        if cid not in CHECKS:
            continue
        cat, text, note, tech, ref = CHECKS[cid]
        checks.append({
            "property_id": cid,
            "quick_cmd": "./check %s quick" % cid,
            "thorough_cmd": "./check %s thorough" % cid,
            "evidence_file": "/verif/evidence/%s.json" % cid,
            "replay_cmd_template": "./check %s --replay {path}" % cid,
            "engine": "vcheck",
            "level_claimed": {"category": cat, "text": text, "design_ref": ref},
            "level_note": note,
            "technique": tech,
        })
    na = [{"property_id": c, "reason": NOT_BUILT.get(c, "check not built yet in this session (design in DESIGN.md §3); not claimed")} for c in ALL if c not in CHECKS]
    hooks = subprocess.run(["git", "-C", "/repo", "log", "--format=%H %s", "--grep=^verif hooks"], capture_output=True, text=True).stdout.strip().splitlines()
    m = {
        "version": 1,
        "setup_cmd": "./setup.sh",
        "hooks": {
            "guard": "verif (Go build tag)",
            "enable": "go build -tags verif (the harness module /verif/harness replaces github.com/wader/fq => /repo, so every check recompiles /repo's working tree)",
            "baseline_off_cmd": "/verif/baseline_off.sh",
            "source_commits": [h.split()[0] for h in hooks],
            "add_only": True,
        },
        "engines": [{"name": "vcheck", "path": "/verif/harness/cmd/vcheck", "serves_properties": sorted(CHECKS), "kind_free_text": "Go harness: generators + real fq code driven in-process + reference-model / differential / invariant monitors; -race build for C18/C20"}],
        "checks": checks,
        "not_applicable": na,
        "notes": "All checks: exit 0 held on everything explored, exit 1 + VIOLATION line, exit 3 broken/inconclusive run. VERIF_SEED selects the PRNG stream; case lists are a function of (seed, tier) only.",
    }
    json.dump(m, open("/verif/MANIFEST.json", "w"), indent=1)
    print("wrote MANIFEST.json with", len(checks), "checks")

main()
