#!/usr/bin/env python3
"""Generates MANIFEST.json from the table below (keeps it schema-valid)."""
import json, subprocess

ALL = ["C%02d" % i for i in range(1, 21)]

# id -> (category, level text, level note, technique, design ref)
CHECKS = {
 "C03": ("exploration",
   "Invariant walker at the API boundary: every *decode.Value returned by decode.Decode for the sample corpus under its own formats, the probe and forced decoding, and for a PRNG slice of the systematic truncation/corruption family (partial trees), is walked and checked for I1..I6 (range inside buffer, children inside parent, unique names + ByName, struct order, array indices, parent links). Jobs run in isolated worker processes.",
   "Trusts the harness walker; roots' hybrid Range (Start in parent buffer, Len own length) follows decode.go. The generated-decoder reference interpreter of DESIGN §3 C03 is not built yet, so 'ranges are exactly the bits each field read' is only checked through C04/C05 content comparisons.",
   "runtime monitor: structural-invariant walker over decode trees of corpus + mutation family", "DESIGN.md §3 C03"),
 "C04": ("exploration",
   "Part 1 enumerates every ordered list of <=3 ranges over buffers of 0..8 bits (and <=4 over 0..5) plus random sets and compares the real ranges.Gaps with a bitmap; part 2 checks every gap-filled decode scope of corpus/mutated/forced decodes: leaves+gaps cover the window, own gaps overlap no other leaf, gap content equals the buffer bits.",
   "Part 1 is exhaustive only for the stated small scope. For *Len/*Range sub-decodes the window is not recorded in the tree, so only holes inside the scope's own range are detectable there.",
   "runtime monitor: exhaustive small-scope differential vs bitmap reference + coverage invariant over decode trees", "DESIGN.md §3 C04"),
 "C05": ("exploration",
   "For up to 400 values per tree (all roots, gaps, unaligned, errored + PRNG sample) of corpus/mutated/forced decodes done through the jq layer, tobits/tobytes results are read back as bit strings and compared with the input file bits (top-level buffer) or the nested root's reader; every bits_format renderer is decoded back; raw CLI stdout of tobytes is compared with the input.",
   "Nested-buffer values are compared against the nested root's own reader (its agreement with independent decompressors is C15).",
   "runtime monitor: differential check of jq binaries against the input bytes", "DESIGN.md §3 C05"),
 "C20": ("exploration",
   "Layer 1 executes every sequence of push/finish/interrupt/stop (length<=7, depth<=4 quick) on the real ctxstack with a handshaked trigger and compares every context with a stack model after every operation; layer 2 records randomized concurrent evaluator/interrupter/observer histories at the client boundary and checks them for linearizability against the same model with porcupine, all under the Go race detector whose reports are violations.",
   "Precondition from fq's usage: a closure implicitly finished by an outer finish is not invoked later. Race detector only sees executed interleavings.",
   "race detector + exhaustive sequential model check of executions + porcupine linearizability of recorded histories", "DESIGN.md §3 C20"),
 "C01": ("exploration",
   "History + executable model: random reader compositions (13 reader kinds incl. real files and fq's open stack) are built in lock-step with a reference bit string; every read/seek/clone/byte-view/writer call of 60k (quick) / 3M (thorough) histories plus exhaustive Read64/Write64 and exhaustive (offset,length) sweeps over short buffers is checked online. Holds on the executions observed, nothing more.",
   "Trusts the harness's own bit-string model (independent of bitio.Read64/Write64). Negative seek targets/read offsets and seek-from-end on padded byte views are outside the domain.",
   "runtime monitor: online reference-model checker over generated call histories", "DESIGN.md §3 C01"),
}

NOT_BUILT = {}

def main():
    checks = []
    for cid in ALL:
        if cid not in CHECKS:
            continue
        cat, text, note, tech, ref = CHECKS[cid]
        checks.append({
            "property_id": cid,
            "quick_cmd": "./check %s quick" % cid,
            "thorough_cmd": "./check %s thorough" % cid,
            "evidence_file": "/verif/evidence/%s.json" % cid,
            "replay_cmd_template": "./check %s --replay {path}" % cid,
            "engine": "vcheck",
            "level_claimed": {"category": cat, "text": text, "design_ref": ref},
            "level_note": note,
            "technique": tech,
        })
    na = [{"property_id": c, "reason": NOT_BUILT.get(c, "check not built yet in this session (design in DESIGN.md §3); not claimed")} for c in ALL if c not in CHECKS]
    hooks = subprocess.run(["git", "-C", "/repo", "log", "--format=%H %s", "--grep=^verif hooks"], capture_output=True, text=True).stdout.strip().splitlines()
    m = {
        "version": 1,
        "setup_cmd": "./setup.sh",
        "hooks": {
            "guard": "verif (Go build tag)",
            "enable": "go build -tags verif (the harness module /verif/harness replaces github.com/wader/fq => /repo, so every check recompiles /repo's working tree)",
            "baseline_off_cmd": "/verif/baseline_off.sh",
            "source_commits": [h.split()[0] for h in hooks],
            "add_only": True,
        },
        "engines": [{"name": "vcheck", "path": "/verif/harness/cmd/vcheck", "serves_properties": sorted(CHECKS), "kind_free_text": "Go harness: generators + real fq code driven in-process + reference-model / differential / invariant monitors; -race build for C18/C20"}],
        "checks": checks,
        "not_applicable": na,
        "notes": "All checks: exit 0 held on everything explored, exit 1 + VIOLATION line, exit 3 broken/inconclusive run. VERIF_SEED selects the PRNG stream; case lists are a function of (seed, tier) only.",
    }
    json.dump(m, open("/verif/MANIFEST.json", "w"), indent=1)
    print("wrote MANIFEST.json with", len(checks), "checks")

main()
