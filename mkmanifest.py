#!/usr/bin/env python3
"""Generates MANIFEST.json from the table below (keeps it schema-valid)."""
import json, subprocess

ALL = ["C%02d" % i for i in range(1, 21)]

# id -> (category, level text, level note, technique, design ref)
CHECKS = {
 "C02": ("exploration",
   "A harness-defined format runs inside the real decode.Decode and calls every scalar reader family of *decode.D by reflection (U/S 1..64 fixed-width, explicit-endian, generic, all six call styles; big integers to 512 bits; IEEE 16/32/64/80; fixed point; LEB128; unary; bool; UTF-8/16 fixed/null-terminated/length-prefixed) at all 8 alignments over boundary + random patterns; value, position and field range are compared with independent big-integer / IEEE arithmetic on the bit string; unsatisfiable reads must fail.",
   "Little-endian only at whole-byte widths; ULEB128 in [2^63,2^64) may be rejected; float80 compared up to one ulp.",
   "runtime monitor: reflection-driven differential check of reader calls against an arithmetic oracle", "DESIGN.md §3 C02"),
 "C06": ("exploration",
   "A finite enumerable mutation family (truncations, bit flips, byte overwrites, length saturation, block dup/remove) around the <=6 smallest corpus samples per format x all registered formats + probe x force runs in isolated worker processes; an event is a Go panic escaping decode.Decode/interp.Main or the death of the worker by a Go fatal error. Quick = PRNG slice (250k cases, equal share per format, 1/4 forced) + ~300k field-start cases (first byte of every leaf field of every own sample set to ff/00, plain and forced); thorough = every third case of the enumerated family (residue VERIF_SEED mod 3; ~19M cases in all) + the field-start cases. Workers run with a 128 MB goroutine stack limit so that runaway recursion ends in the runtime's own stack-overflow fault.",
   "Watchdog expiry and memory-limit kills (length-field bombs under force, decompression bombs) are inconclusive and listed per case, never verdicts. A crash needing two coordinated edits far apart is outside the family. A needle outside the field-start cases and the PRNG slice is only found by the thorough tier.",
   "runtime monitor: crash oracle over an enumerated fault family, process isolation with journaled workers", "DESIGN.md §3 C06"),
 "C07": ("exploration",
   "Grammar-generated standard jq programs (type-guided, every built-in fq redefines, local defs shadowing fq names) on generated JSON inputs are run by fq (Interp.Eval and the in-process CLI) and by the vanilla gojq fork; output sequences and error positions are compared as values; disagreements are shrunk and signed by (built-ins, input type, kind). Deterministic sweeps add every redefined string built-in x every pooled separator/regex/flag, the JSON conversions on special numbers, and uncaught errors of every value kind raised in 24 ways at both boundaries.",
   "Error text is not compared; environment-dependent built-ins are excluded; timeouts are inconclusive.",
   "runtime monitor: differential testing against the embedded reference engine", "DESIGN.md §3 C07"),
 "C08": ("exploration",
   "Per corpus tree up to 36 values chosen to cover every scalar kind present (with and without symbolic mapping, structs, arrays) are put through ~80 read-only queries each as [v|q]|tovalue and [v|tovalue|q]; results are compared in Go under per-query documented normalisations; tovalue of scalars is also compared with sym ?? actual read from the Go tree.",
   "Documented differences (key order, string key on non-object, underscore keys, non-UTF-8 raw bits) are normalised per query; update operators are outside the family.",
   "runtime monitor: metamorphic/differential check of decode values against their JSON values", "DESIGN.md §3 C08"),
 "C09": ("exploration",
   "Generated expression trees over strings, integers, big integers, decode-value fields and opened files with tobits/tobytes(/n)/to*range, indexing, slicing, .bits/.bytes, nested binary arrays, tonumber/tostring/explode/to_hex and the size/start/stop/unit keys are evaluated by fq and by a Go reference bit-string evaluator written from doc/usage.md; algebraic laws are derived cases. Members straddle the copy-chunk sizes (512 B..70 KB) and numbers also appear as computed big integers.",
   "Negative top-level numbers and floats are out of domain.",
   "runtime monitor: program generator + reference evaluator", "DESIGN.md §3 C09"),
 "C10": ("exploration",
   "dump/hexdump output of 69 trees x sampled configurations (line_bytes 1..64, addrbase/sizebase {2,8,10,16,36}, display_bytes, verbose, colour) is parsed back into rows and every address, hex pair, ASCII cell, verbose range/size and truncation marker is compared with the input bytes and an independent formatter; JSON output of generated values (big integers, floats, control/astral characters) is parsed back exactly.",
   "Column width is fq's presentation choice; the truncation marker may be cut by the column.",
   "runtime monitor: parse-back of displayed output against the input bytes", "DESIGN.md §3 C10"),
 "C11": ("exploration",
   "Programs generated from the full grammar of the embedded parser are (1) round-tripped through fq's own _query_fromstring/_query_tostring and compared as normalised ASTs, (2) run as original and printed text by vanilla gojq on 3 inputs, (3) run through the fq CLI wrapper (_cli_eval) and compared with direct evaluation, including names that collide with the wrapper's internals.",
   "CLI stderr compared by number of error lines and exit status only.",
   "runtime monitor: round-trip + differential semantic check over generated programs", "DESIGN.md §3 C11"),
 "C12": ("exploration",
   "For sampled values of corpus/mutated/forced trees decoded through the jq layer, getpath/topath/parent/root/buffer_root/format_root/parents are compared by Go pointer identity with an independent top-down walk; generated hostile path arrays are round-tripped through path_to_expr | expr_to_path.",
   "Pointer identity of *decode.Value is the notion of 'same value'.",
   "runtime monitor: identity oracle over navigation results + round-trip law", "DESIGN.md §3 C12"),
 "C13": ("exploration",
   "Every function in scope that vanilla gojq does not provide (jq definitions and Go registrations, all arities, enumerated at run time) is applied to inputs/arguments from a pool of boundary values and hostile option objects inside try/catch, batched per evaluation in isolated worker processes; an event is a Go panic at the boundary or a worker death by a Go fatal error.",
   "Functions that block or terminate by design are excluded by name; hangs/OOM are inconclusive and listed per function.",
   "runtime monitor: crash oracle over enumerated function x boundary-value cases", "DESIGN.md §3 C13"),
 "C14": ("exploration",
   "Each encoder/decoder pair is driven with generated inputs of its documented domain; results are compared with Go stdlib (and Python in thorough) references, inverse laws are checked, malformed inputs must raise.",
   "Quick-tier hash oracle links the same Go libraries as fq (thorough adds Python hashlib).",
   "runtime monitor: differential check against reference implementations + inverse laws", "DESIGN.md §3 C14"),
 "C15": ("exploration",
   "gzip/zip/tar/png/gif/wav (+bzip2 in thorough) files are written by Go stdlib (and Python in thorough) from generated contents; fq's names, sizes, header fields, payload bytes and checksum verdicts are compared with what was stored; single-byte corruptions of checksummed regions must not give a clean result when the independent reader rejects them.",
   "Domain restricted to what the independent writers emit.",
   "runtime monitor: differential check against independent writers/readers + fault injection into checksummed regions", "DESIGN.md §3 C15"),
 "C16": ("exploration",
   "Spec-level encoders written in the harness (msgpack, cbor, bson, bencode, asn1 ber) and stdlib emitters (json, jsonl, yaml, toml, xml, csv) encode generated values in every alternative wire form; fq's torepr/tovalue must return the value, strict prefixes must be decode errors, trailing data an error (text) or a gap (binary). Wire forms seen by the decoder are read back from the tree.",
   "Values without a JSON-like representation (cbor tags, non-string keys, …) are checked for no-crash only.",
   "runtime monitor: differential check against independent encoders + truncation/trailing-data faults", "DESIGN.md §3 C16"),
 "C17": ("exploration",
   "PRNG-composed command lines from the documented flag table x 0..4 inputs (decodable, undecodable, missing, directory) x program kinds run in-process; a reference model predicts the exit status, a metamorphic relation checks that outputs of good inputs are independent of interleaved failing ones, and jq-compatible modes are compared with vanilla gojq.",
   "Model encodes the documented contract; explicit single format never gives exit 4.",
   "runtime monitor: reference-model + metamorphic checks over generated command lines", "DESIGN.md §3 C17"),
 "C18": ("exploration",
   "~190 (quick) decode+display jobs on the shared DefaultRegistry (one good and one truncated sample per format, generated nested documents, option-carrying and pair-isolation jobs) are run in a golden process, in permuted orders with repeats, in burst histories (every failing decode 12x, then every job), concurrently on 2..64 goroutines with a start barrier, and in cold-start rounds where G goroutines enter decode.Decode for the same job at the same moment, all in fresh -race processes; every output (or tree digest) is compared with the golden and race detector reports are violations.",
   "Race detector sees only executed unsynchronised accesses; a lazy initialisation is only seen when two first uses really coincide (cold-start rounds: once per good job and run).",
   "Go race detector + output-equality monitor across orders and interleavings", "DESIGN.md §3 C18"),
 "C19": ("exploration",
   "Hand-written Ethernet/raw/SLL/SLL2/loopback + IPv4 + TCP builders and pcap/pcapng writers produce captures of generated conversations (segmentation, interleaving, retransmits, adjacent swaps, fragmentation, omissions); fq's reassembled streams, endpoints, skipped_bytes and ipv4_reassembled are compared with what was sent.",
   "IPv4 only; handshake packets never reordered; a hole is knowable only if a later segment of that direction is captured.",
   "runtime monitor: differential check of reassembly against generated ground truth", "DESIGN.md §3 C19"),
 "C03": ("exploration",
   "Invariant walker at the API boundary: every *decode.Value returned by decode.Decode for the sample corpus under its own formats, the probe and forced decoding, and for a PRNG slice of the systematic truncation/corruption family (partial trees), is walked and checked for I1..I6 (range inside buffer, children inside parent, unique names + ByName, struct order, array indices, parent links). Jobs run in isolated worker processes. Second monitor (gendec): random decoder programs over the public decode API (struct/array/seek/framed/limited/range/FieldFormat/FieldFormatLen/Range/nested buffers/synthetic values/failures, repeated names, forced decoding) run through the real decode.Decode and through a reference interpreter; names, order, ranges, values and the failing call must agree.",
   "Trusts the harness walker and the 300-line reference interpreter; roots' hybrid Range (Start in parent buffer, Len own length) follows decode.go. Two listed defects (tls late fields, nested-root start inside a sub-decode window) are known findings.",
   "runtime monitor: structural-invariant walker over decode trees of corpus + mutation family; reference-model monitor over generated decoder programs", "DESIGN.md §3 C03, §8.2"),
 "C04": ("exploration",
   "Part 1 enumerates every ordered list of <=3 ranges over buffers of 0..8 bits (and <=4 over 0..5) plus random sets and compares the real ranges.Gaps with a bitmap; part 2 checks every gap-filled decode scope of corpus/mutated/forced decodes: leaves+gaps cover the window, own gaps lie inside it and overlap no other leaf, gap content equals the buffer bits; part 3 runs generated decoder programs (C03's generator) through the same monitor with the true window of every sub-decode taken from the reference interpreter.",
   "Part 1 is exhaustive only for the stated small scope. In corpus trees the window of a *Len/*Range sub-decode is not recorded, so window coverage is demanded of buffer roots and of sub-decodes that have gap fields of their own (the property is stated per buffer); generated programs do not have this limit.",
   "runtime monitor: exhaustive small-scope differential vs bitmap reference + coverage invariant over decode trees", "DESIGN.md §3 C04"),
 "C05": ("exploration",
   "For up to 400 values per tree (all roots, gaps, unaligned, errored + PRNG sample) of corpus/mutated/forced decodes done through the jq layer, tobits/tobytes results are read back as bit strings and compared with the input file bits (top-level buffer) or the nested root's reader; every bits_format renderer is decoded back; raw CLI stdout of tobytes (root, values, nested-buffer values, the same buffer twice in one run) is compared with the input; generated ASN.1 BIT STRINGs up to 300 KiB with 1..7 unused bits and decodes of sliced binaries extend the corpus.",
   "Nested-buffer values are compared against the nested root's own reader (its agreement with independent decompressors is C15).",
   "runtime monitor: differential check of jq binaries against the input bytes", "DESIGN.md §3 C05"),
 "C20": ("exploration",
   "Layer 1 executes every sequence of push/finish/interrupt/stop (length<=7, depth<=4 quick) on the real ctxstack with a handshaked trigger and compares every context with a stack model after every operation; layer 2 records randomized concurrent evaluator/interrupter/observer histories at the client boundary and checks them for linearizability against the same model with porcupine; layer 2b is an interrupt storm (millions of push/finish groups against a free-running interrupter; no crash, finished contexts cancelled); layer 3 runs interp.Main with scripted nested REPLs and event-driven interrupts and requires the transcript to equal that of the same session without the cancelled work, plus scenarios: abandoned nested evaluation, nested evaluation that fails to compile/include/parse/run, caught cancellation followed by a second interrupt, interrupt while blocked in a read of the input, output suppression after cancellation; all under the Go race detector whose reports are violations.",
   "Precondition from fq's usage: a closure implicitly finished by an outer finish is not invoked later. Race detector only sees executed interleavings.",
   "race detector + exhaustive sequential model check of executions + porcupine linearizability of recorded histories", "DESIGN.md §3 C20"),
 "C01": ("exploration",
   "History + executable model: random reader compositions (15 reader kinds incl. real files, fq's open stack, leaves that read short or report EOF with data, and leaves that fail with a sticky injected I/O error) are built in lock-step with a reference bit string; every read/seek/clone/byte-view/writer call of 60k (quick) / 3M (thorough) histories plus exhaustive Read64/Write64 and exhaustive (offset,length) sweeps over short buffers is checked online; an operation that hits the injected fault is judged by a weak oracle (delivered bits right, an I/O error never reported as end-of-data); no-progress is decided on reader-call counts per operation, not on time. Holds on the executions observed, nothing more.",
   "Trusts the harness's own bit-string model (independent of bitio.Read64/Write64). Negative seek targets/read offsets and seek-from-end on padded byte views are outside the domain.",
   "runtime monitor: online reference-model checker over generated call histories", "DESIGN.md §3 C01"),
}

NOT_BUILT = {}

def main():
    checks = []
    for cid in ALL:
        if cid not in CHECKS:
            continue
        cat, text, note, tech, ref = CHECKS[cid]
        checks.append({
            "property_id": cid,
            "quick_cmd": "./check %s quick" % cid,
            "thorough_cmd": "./check %s thorough" % cid,
            "evidence_file": "/verif/evidence/%s.json" % cid,
            "replay_cmd_template": "./check %s --replay {path}" % cid,
            "engine": "vcheck",
            "level_claimed": {"category": cat, "text": text, "design_ref": ref},
            "level_note": note,
            "technique": tech,
        })
    na = [{"property_id": c, "reason": NOT_BUILT.get(c, "check not built yet in this session (design in DESIGN.md §3); not claimed")} for c in ALL if c not in CHECKS]
    hooks = subprocess.run(["git", "-C", "/repo", "log", "--format=%H %s", "--grep=^verif hooks"], capture_output=True, text=True).stdout.strip().splitlines()
    m = {
        "version": 1,
        "setup_cmd": "./setup.sh",
        "hooks": {
            "guard": "verif (Go build tag)",
            "enable": "go build -tags verif (the harness module /verif/harness replaces github.com/wader/fq => /repo, so every check recompiles /repo's working tree)",
            "baseline_off_cmd": "/verif/baseline_off.sh",
            "source_commits": [h.split()[0] for h in hooks],
            "add_only": True,
        },
        "engines": [{"name": "vcheck", "path": "/verif/harness/cmd/vcheck", "serves_properties": sorted(CHECKS), "kind_free_text": "Go harness: generators + real fq code driven in-process + reference-model / differential / invariant monitors; -race build for C18/C20"}],
        "checks": checks,
        "not_applicable": na,
        "notes": "All checks: exit 0 held on everything explored, exit 1 + VIOLATION line, exit 3 broken/inconclusive run. VERIF_SEED selects the PRNG stream; case lists are a function of (seed, tier) only.",
    }
    json.dump(m, open("/verif/MANIFEST.json", "w"), indent=1)
    print("wrote MANIFEST.json with", len(checks), "checks")

main()
