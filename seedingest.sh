#!/bin/bash
# usage: seedingest.sh <CID> <agent-out-dir> <letterA> <letterB>
# Copies a seed author's deliveries into /verif/seeded/<CID>-<letter>/ and starts, in the background, the
# confirmation (seedconfirm.sh: demo both ways + repository suite) and the first-pass evaluation
# (seedeval2.sh, quick tier). Results: /tmp/seed5/<id>.confirm.json and /tmp/seed5/<id>.eval.txt
CID="$1"; OUT="$2"; shift 2
mkdir -p /tmp/seed5
i=0
for d in A B; do
  L="$1"; shift
  id="$CID-$L"
  mkdir -p "/verif/seeded/$id"
  cp "$OUT/$d"/* "/verif/seeded/$id/" 2>/dev/null
  ( cd /verif && ./seedconfirm.sh "seeded/$id" > "/tmp/seed5/$id.confirm.json" 2>&1 ) &
  ( cd /verif && SEED_TIMEOUT=1500 ./seedeval2.sh "$CID" "seeded/$id/patch.diff" quick > "/tmp/seed5/$id.eval.txt" 2>&1 ) &
done
wait
