#!/bin/bash
# usage: seedeval_all.sh [parallelism] — evaluates every seeded change in /verif/seeded with seedeval2.sh (quick tier)
# and prints one line per seed; results also in /tmp/seedeval_all.log
P=${1:-4}
cd /verif
ls -d seeded/C*/ | sed 's#seeded/##; s#/##' | xargs -P $P -I{} bash -c 'c=$(echo {} | cut -d- -f1); ./seedeval2.sh $c seeded/{}/patch.diff quick' | tee /tmp/seedeval_all.log
