#!/bin/bash
# usage: seedeval2.sh <CID> <patch.diff> [tier] — evaluates a seeded change WITHOUT touching /repo:
# scratch worktree of /repo HEAD + the patch, scratch copy of /verif whose harness module replaces
# github.com/wader/fq => that worktree. (Corpus testdata is still read from /repo/format: patches do not touch it.)
# Both scratch directories are removed at the end. Several of these can run side by side.
set -u
CID="$1"; PATCH="$(readlink -f "$2")"; TIER="${3:-quick}"
TAG="se-$CID-$$"
WT="/tmp/$TAG-repo"; VC="/tmp/$TAG-verif"
cleanup() { git -C /repo worktree remove --force "$WT" >/dev/null 2>&1; rm -rf "$WT" "$VC"; git -C /repo worktree prune; }
trap cleanup EXIT
git -C /repo worktree add -q --detach "$WT" HEAD || exit 9
git -C "$WT" apply "$PATCH" || { echo "$CID $PATCH APPLY-FAILED"; exit 9; }
mkdir -p "$VC"
rsync -a --exclude .git --exclude bin --exclude replays --exclude evidence --exclude seeded --exclude 'sweep-*.log' /verif/ "$VC/"
sed -i "s#=> /repo#=> $WT#" "$VC/harness/go.mod"
s=$(date +%s)
( cd "$VC" && timeout -s KILL ${SEED_TIMEOUT:-1800} ./check "$CID" "$TIER" > "/tmp/$TAG.out" 2>&1 ); rc=$?
e=$(date +%s)
sig=$(grep -m1 "signature:" "/tmp/$TAG.out" | sed 's/^ *signature: //' | cut -c1-120)
nv=$(grep -c '^VIOLATION' "/tmp/$TAG.out")
echo "$CID $(basename $(dirname $PATCH)) rc=$rc wall=$((e-s))s violations=$nv first=[$sig]"
mkdir -p /tmp/seedeval2-out && mv "/tmp/$TAG.out" "/tmp/seedeval2-out/$(basename $(dirname $PATCH)).out"
