#!/bin/bash
# usage: seedeval.sh <CID> <patch.diff> [tier]  — applies a seeded change to /repo, runs the check, undoes it.
# prints: CID patch rc wall first-signature
set -u
CID="$1"; PATCH="$2"; TIER="${3:-quick}"
cd /repo || exit 9
if [ -n "$(git status --porcelain --untracked-files=no)" ]; then echo "REPO-DIRTY"; exit 9; fi
git apply "$PATCH" || { echo "$CID $PATCH APPLY-FAILED"; exit 9; }
s=$(date +%s)
( cd /verif && timeout -s KILL ${SEED_TIMEOUT:-1500} ./check "$CID" "$TIER" > /tmp/seedeval_$CID.out 2>&1 ); rc=$?
e=$(date +%s)
git -C /repo checkout -- . ; git -C /repo clean -fdq -- pkg format internal 2>/dev/null
sig=$(grep -m1 "signature:" /tmp/seedeval_$CID.out | sed 's/^ *signature: //' | cut -c1-120)
nv=$(grep -c '^VIOLATION' /tmp/seedeval_$CID.out)
echo "$CID $(basename $(dirname $PATCH)) rc=$rc wall=$((e-s))s violations=$nv first=[$sig]"
