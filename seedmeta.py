#!/usr/bin/env python3
# usage: seedmeta.py <id> <round> <change> <needs> [note]
# Writes /verif/seeded/<id>/meta.json from the results of seedingest.sh (/tmp/seed5/<id>.confirm.json,
# /tmp/seed5/<id>.eval.txt). An existing first_pass block is kept; check_result_final is (re)written.
import json, os, re, sys
sid, rnd, change, needs = sys.argv[1:5]
note = sys.argv[5] if len(sys.argv) > 5 else None
d = "/verif/seeded/" + sid
conf = json.loads(open("/tmp/seed5/%s.confirm.json" % sid).read().strip().splitlines()[-1])
ev = open("/tmp/seed5/%s.eval.txt" % sid).read().strip().splitlines()[-1]
m = re.search(r"rc=(\d+) wall=(\d+)s violations=(\d+) first=\[(.*)\]", ev)
res = {"tier": "quick", "caught": m.group(1) == "1" and int(m.group(3)) > 0, "first_signature": m.group(4), "wall_s": int(m.group(2))}
path = d + "/meta.json"
meta = json.load(open(path)) if os.path.exists(path) else {}
meta.update({
    "property": sid.split("-")[0], "id": sid, "round": int(rnd), "change": change, "needs_to_manifest": needs,
    "written_by": "independent sub-agent given only the property text and a scratch worktree (fifth round)",
    "confirmed_suite": {"suite_rc": conf["suite_rc"], "packages_ok": conf["packages_ok"], "fails": conf["fails"]},
    "confirmed_demo": {"kind": "demo.sh" if os.path.exists(d + "/demo.sh") else "demo_test.go",
                       "exit_without_change": conf["demo_without"], "exit_with_change": conf["demo_with"]},
    "ran": ["./seedconfirm.sh seeded/%s (scratch worktree: demo without/with the change, go test -vet=off -count=1 ./... with the change)" % sid,
            "./seedeval2.sh %s seeded/%s/patch.diff quick" % (sid.split("-")[0], sid)],
})
if "first_pass" not in meta:
    meta["first_pass"] = dict(res)
    if note:
        meta["first_pass"]["note"] = note
meta["check_result_final"] = res
json.dump(meta, open(path, "w"), indent=1)
print(sid, "suite", conf["suite_rc"], conf["packages_ok"], "demo", conf["demo_without"], conf["demo_with"], "caught", res["caught"], res["first_signature"])
