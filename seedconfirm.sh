#!/bin/bash
# usage: seedconfirm.sh <srcdir> [pkgdir-for-demo_test.go] [extra go test flags, e.g. -race]
# Confirms a seeded change delivered in <srcdir> (patch.diff + demo.sh | demo_test.go) on a scratch worktree
# of /repo HEAD: demonstration without the change (want 0), with the change (want != 0), and the repository
# suite with the change (want every package ok). Prints one JSON line; /repo is not touched.
set -u
export GOFLAGS=-mod=mod GOPROXY=off GOSUMDB=off GOTOOLCHAIN=local
SRC="$(readlink -f "$1")"; PKG="${2:-}"; XFLAGS="${3:-}"
TAG="sc-$(basename "$(dirname "$SRC")")-$(basename "$SRC")-$$"
WT="/tmp/$TAG"
cleanup() { git -C /repo worktree remove --force "$WT" >/dev/null 2>&1; rm -rf "$WT"; git -C /repo worktree prune; }
trap cleanup EXIT
git -C /repo worktree add -q --detach "$WT" HEAD || exit 9
rundemo() {
  if [ -f "$SRC/demo.sh" ]; then
    ( cd "$WT" && timeout 900 bash "$SRC/demo.sh" "$WT" ) > "/tmp/$TAG.demo.$1.log" 2>&1; echo $?
  else
    cp "$SRC/demo_test.go" "$WT/$PKG/zz_seed_demo_test.go"
    ( cd "$WT" && timeout 900 go test -vet=off -count=1 $XFLAGS "./$PKG" -run "$(grep -oE '^func (Test[A-Za-z0-9_]+)' "$SRC/demo_test.go" | awk '{print $2}' | paste -sd'|')" ) > "/tmp/$TAG.demo.$1.log" 2>&1; rc=$?
    rm -f "$WT/$PKG/zz_seed_demo_test.go"; echo $rc
  fi
}
without=$(rundemo without)
git -C "$WT" apply "$SRC/patch.diff" || { echo "{\"src\":\"$SRC\",\"error\":\"apply failed\"}"; exit 9; }
with=$(rundemo with)
( cd "$WT" && go test -vet=off -count=1 ./... ) > "/tmp/$TAG.suite.log" 2>&1; src=$?
ok=$(grep -c '^ok' "/tmp/$TAG.suite.log"); fails=$(grep -c '^\(FAIL\|--- FAIL\)' "/tmp/$TAG.suite.log")
echo "{\"src\":\"$SRC\",\"demo_without\":$without,\"demo_with\":$with,\"suite_rc\":$src,\"packages_ok\":$ok,\"fails\":$fails,\"logs\":\"/tmp/$TAG.*.log\"}"
