#!/bin/bash
# usage: ./sweep.sh <tier> <per-check-timeout-seconds> <ID>...   (VERIF_SEED honoured)
# Runs the listed checks one after another and prints one summary line per check.
cd "$(dirname "$0")"
tier="$1"; to="$2"; shift 2
for c in "$@"; do
  s=$(date +%s)
  timeout -s KILL "$to" ./check "$c" "$tier" > "sweep-$c-$tier-${VERIF_SEED:-1}.log" 2>&1
  rc=$?
  e=$(date +%s)
  echo "SWEEP $c tier=$tier seed=${VERIF_SEED:-1} rc=$rc wall=$((e-s))s viol=$(grep -c '^VIOLATION' sweep-$c-$tier-${VERIF_SEED:-1}.log) :: $(grep -E "^$c $tier seed" sweep-$c-$tier-${VERIF_SEED:-1}.log | tail -1)"
  grep '^VIOLATION' -A2 "sweep-$c-$tier-${VERIF_SEED:-1}.log" | head -30
done
echo SWEEP-DONE
