#!/bin/bash
# Runs the repository's pinned suite with the verif guard OFF (no -tags verif).
export GOFLAGS=-mod=mod GOPROXY=off GOSUMDB=off GOTOOLCHAIN=local
cd /repo && go test -mod=mod -json -vet=off -count=1 -timeout 25m ./...
